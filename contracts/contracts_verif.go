//go:build verif

// Contracts for the deductive verifier in /verif/govc (comment-only file: it
// declares nothing and, with the build tag off, is not even compiled).
// Syntax: see /verif/DESIGN.md section 3.

package raft

// ---------------------------------------------------------------------------
// Ghost models and assumed interface contracts (trusted base)

//@ model LogStore { has map[uint64]bool; ent map[uint64]Log; first uint64; last uint64 }

//@ interface LogStore.GetLog(index, log)
//@   requires lognonnil: log != nil
//@   modifies *log
//@   ensures  found:    result == nil ==> this.has[index] && *log == this.ent[index]
//@   ensures  notfound: !this.has[index] ==> result != nil

//@ interface LogStore.StoreLogs(logs)
//@   requires nonnil:   forall k int :: 0 <= k && k < len(logs) ==> logs[k] != nil
//@   requires distinct: forall a int, b int :: 0 <= a && a < b && b < len(logs) ==> logs[a].Index != logs[b].Index
//@   modifies this.has, this.ent, this.first, this.last
//@   ensures  stored:   result == nil ==> forall k int :: 0 <= k && k < len(logs) ==>
//@                        this.has[logs[k].Index] && this.ent[logs[k].Index] == *logs[k]
//@   ensures  others:   result == nil ==> forall i uint64 ::
//@                        (forall k int :: 0 <= k && k < len(logs) ==> logs[k].Index != i) ==>
//@                        this.has[i] == old(this.has[i]) && this.ent[i] == old(this.ent[i])
//@   ensures  atomic:   result != nil ==> this.has == old(this.has) && this.ent == old(this.ent) && this.first == old(this.first) && this.last == old(this.last)

//@ interface LogStore.DeleteRange(min, max)
//@   modifies this.has, this.ent, this.first, this.last
//@   ensures  deleted:  result == nil ==> forall i uint64 :: this.has[i] == (old(this.has[i]) && !(min <= i && i <= max))
//@   ensures  kept:     forall i uint64 :: this.has[i] ==> old(this.has[i]) && this.ent[i] == old(this.ent[i])
//@   ensures  atomic:   result != nil ==> this.has == old(this.has) && this.ent == old(this.ent) && this.first == old(this.first) && this.last == old(this.last)

//@ interface LogStore.FirstIndex()
//@   modifies nothing
//@   ensures  value: result1 == nil ==> result0 == this.first

//@ interface LogStore.LastIndex()
//@   modifies nothing
//@   ensures  value: result1 == nil ==> result0 == this.last

// ---------------------------------------------------------------------------
// C19: LogCache

//@ spec func CacheInv(c *LogCache) bool =
//@   len(c.cache) > 0 && forall j int :: 0 <= j && j < len(c.cache) && c.cache[j] != nil ==>
//@     c.cache[j].Index % len(c.cache) == j && c.store.has[c.cache[j].Index] && *c.cache[j] == c.store.ent[c.cache[j].Index]

//@ func NewLogCache
//@   modifies nothing
//@   ensures  capacity_check: (capacity <= 0) == (result1 != nil)
//@   ensures  nil_on_error: result1 != nil ==> result0 == nil
//@   ensures  inv: result1 == nil ==> result0 != nil && isfresh(result0) && result0.store == store && len(result0.cache) == capacity && CacheInv(result0)

//@ func (c *LogCache) GetLog
//@   requires nonnil: c != nil && log != nil && c.store != nil
//@   requires inv: CacheInv(c)
//@   requires noalias: forall j int :: 0 <= j && j < len(c.cache) ==> c.cache[j] != log
//@   modifies *log
//@   safe
//@   ensures  hit_is_current: result == nil ==> c.store.has[idx] && *log == c.store.ent[idx]
//@   ensures  miss_forwards:  !c.store.has[idx] ==> result != nil
//@   ensures  inv: CacheInv(c)

//@ func (c *LogCache) StoreLogs
//@   requires nonnil: c != nil && c.store != nil
//@   requires inv: CacheInv(c)
//@   requires lognonnil: forall k int :: 0 <= k && k < len(logs) ==> logs[k] != nil
//@   requires distinct: forall a int, b int :: 0 <= a && a < b && b < len(logs) ==> logs[a].Index != logs[b].Index
//@   requires private_cache: arrayof(logs) != arrayof(c.cache)
//@   modifies c.store.has, c.store.ent, c.store.first, c.store.last, c.cache[*]
//@   safe
//@   ensures  stored:   result == nil ==> forall k int :: 0 <= k && k < len(logs) ==>
//@                        c.store.has[logs[k].Index] && c.store.ent[logs[k].Index] == *logs[k]
//@   ensures  others:   result == nil ==> forall i uint64 ::
//@                        (forall k int :: 0 <= k && k < len(logs) ==> logs[k].Index != i) ==>
//@                        c.store.has[i] == old(c.store.has[i]) && c.store.ent[i] == old(c.store.ent[i])
//@   ensures  atomic:   result != nil ==> c.store.has == old(c.store.has) && c.store.ent == old(c.store.ent)
//@   ensures  cache_untouched_on_error: result != nil ==> forall j int :: 0 <= j && j < len(c.cache) ==> c.cache[j] == old(c.cache[j])
//@   ensures  inv: CacheInv(c)
//@   loop 1 invariant slots: len(c.cache) > 0 && forall j int ::
//@       0 <= j && j < len(c.cache) && c.cache[j] != nil ==>
//@         c.cache[j].Index % len(c.cache) == j &&
//@         ( (c.store.has[c.cache[j].Index] && *c.cache[j] == c.store.ent[c.cache[j].Index])
//@           || exists k int :: #i <= k && k < len(logs) && logs[k].Index == c.cache[j].Index )

//@ func (c *LogCache) StoreLog
//@   requires nonnil: c != nil && log != nil && c.store != nil
//@   requires inv: CacheInv(c)
//@   modifies c.store.has, c.store.ent, c.store.first, c.store.last, c.cache[*]
//@   ensures  stored: result == nil ==> c.store.has[log.Index] && c.store.ent[log.Index] == *log
//@   ensures  others: result == nil ==> forall i uint64 :: i != log.Index ==>
//@                        c.store.has[i] == old(c.store.has[i]) && c.store.ent[i] == old(c.store.ent[i])
//@   ensures  inv: CacheInv(c)

//@ func (c *LogCache) DeleteRange
//@   requires nonnil: c != nil && c.store != nil
//@   requires inv: CacheInv(c)
//@   modifies c.cache, c.store.has, c.store.ent, c.store.first, c.store.last
//@   safe
//@   ensures  cleared: forall j int :: 0 <= j && j < len(c.cache) ==> c.cache[j] == nil
//@   ensures  same_capacity: len(c.cache) == old(len(c.cache))
//@   ensures  deleted:  result == nil ==> forall i uint64 :: c.store.has[i] == (old(c.store.has[i]) && !(min <= i && i <= max))
//@   ensures  kept:     forall i uint64 :: c.store.has[i] ==> old(c.store.has[i]) && c.store.ent[i] == old(c.store.ent[i])
//@   ensures  inv: CacheInv(c)

//@ func (c *LogCache) FirstIndex
//@   requires nonnil: c != nil && c.store != nil
//@   modifies nothing
//@   ensures  forwarded: result1 == nil ==> result0 == c.store.first

//@ func (c *LogCache) LastIndex
//@   requires nonnil: c != nil && c.store != nil
//@   modifies nothing
//@   ensures  forwarded: result1 == nil ==> result0 == c.store.last

// ---------------------------------------------------------------------------
// C05: commitment

//@ func (c *commitment) recalculate
//@   requires cnonnil: c != nil
//@   modifies c.commitIndex, sent(c.commitCh)
//@   ensures  monotone:   c.commitIndex >= old(c.commitIndex)
//@   ensures  term_rule:  c.commitIndex != old(c.commitIndex) ==> c.commitIndex >= c.startIndex
//@   ensures  majority_size: c.commitIndex != old(c.commitIndex) ==>
//@              2*(card(c.matchIndexes) - (card(c.matchIndexes)-1)/2) > card(c.matchIndexes)
//@   ensures  strict_majority: c.commitIndex != old(c.commitIndex) ==>
//@              forall j int :: (card(c.matchIndexes)-1)/2 <= j && j < card(c.matchIndexes) ==>
//@                dom(c.matchIndexes, #key(#perm(j))) && c.matchIndexes[#key(#perm(j))] >= c.commitIndex
//@   ensures  distinct_voters: forall a int, b int :: 0 <= a && a < b && b < card(c.matchIndexes) ==>
//@              #key(#perm(a)) != #key(#perm(b))
//@   ensures  notify_iff_advanced: sent(c.commitCh) != old(sent(c.commitCh)) ==> c.commitIndex != old(c.commitIndex)
//@   ensures  map_unchanged: card(c.matchIndexes) == old(card(c.matchIndexes))
//@   loop 1 invariant size: len(matched) == #i && cap(matched) >= #card
//@   loop 1 invariant gather: forall j int :: 0 <= j && j < #i ==> matched[j] == c.matchIndexes[#key(j)]

//@ func (c *commitment) match
//@   requires cnonnil: c != nil
//@   modifies c.matchIndexes[*], c.commitIndex, sent(c.commitCh)
//@   ensures  nonvoter_ignored: !old(dom(c.matchIndexes, server)) ==>
//@              c.commitIndex == old(c.commitIndex) &&
//@              (forall k ServerID :: dom(c.matchIndexes, k) == old(dom(c.matchIndexes, k)) && c.matchIndexes[k] == old(c.matchIndexes[k]))
//@   ensures  monotone_entry: old(dom(c.matchIndexes, server)) ==>
//@              c.matchIndexes[server] == max(old(c.matchIndexes[server]), matchIndex)
//@   ensures  others_unchanged: forall k ServerID :: k != server ==>
//@              dom(c.matchIndexes, k) == old(dom(c.matchIndexes, k)) && c.matchIndexes[k] == old(c.matchIndexes[k])
//@   ensures  dom_unchanged: forall k ServerID :: dom(c.matchIndexes, k) == old(dom(c.matchIndexes, k))
//@   ensures  monotone: c.commitIndex >= old(c.commitIndex)
//@   ensures  term_rule: c.commitIndex != old(c.commitIndex) ==> c.commitIndex >= c.startIndex
//@   ensures  same_map: c.matchIndexes == old(c.matchIndexes)

//@ func (c *commitment) getCommitIndex
//@   requires cnonnil: c != nil
//@   modifies nothing
//@   ensures  value: result == c.commitIndex

//@ spec func isVoterAt(cfg Configuration, i int) bool = cfg.Servers[i].Suffrage == Voter
//@ spec func isVoter(cfg Configuration, id ServerID) bool =
//@   exists i int :: 0 <= i && i < len(cfg.Servers) && cfg.Servers[i].ID == id && cfg.Servers[i].Suffrage == Voter

//@ func newCommitment
//@   modifies nothing
//@   ensures  nonnil: result != nil && isfresh(result)
//@   ensures  fields: result.commitIndex == 0 && result.startIndex == startIndex && result.commitCh == commitCh
//@   ensures  dom_is_voter_set: forall id ServerID :: dom(result.matchIndexes, id) == isVoter(configuration, id)
//@   ensures  all_zero: forall id ServerID :: result.matchIndexes[id] == 0
//@   loop 1 invariant dom: forall id ServerID :: dom(matchIndexes, id) ==
//@        (exists i int :: 0 <= i && i < #i && configuration.Servers[i].ID == id && configuration.Servers[i].Suffrage == Voter)
//@   loop 1 invariant zero: forall id ServerID :: matchIndexes[id] == 0

//@ func (c *commitment) setConfiguration
//@   requires cnonnil: c != nil
//@   modifies c.matchIndexes, c.commitIndex, sent(c.commitCh)
//@   ensures  dom_is_voter_set: forall id ServerID :: dom(c.matchIndexes, id) == isVoter(configuration, id)
//@   ensures  retained: forall id ServerID :: dom(c.matchIndexes, id) ==> c.matchIndexes[id] == old(c.matchIndexes[id])
//@   ensures  monotone: c.commitIndex >= old(c.commitIndex)
//@   ensures  term_rule: c.commitIndex != old(c.commitIndex) ==> c.commitIndex >= c.startIndex
//@   loop 1 invariant dom: forall id ServerID :: dom(c.matchIndexes, id) ==
//@        (exists i int :: 0 <= i && i < #i && configuration.Servers[i].ID == id && configuration.Servers[i].Suffrage == Voter)
//@   loop 1 invariant vals: forall id ServerID :: dom(c.matchIndexes, id) ==> c.matchIndexes[id] == old(c.matchIndexes[id])
//@   loop 1 invariant fresh: isfresh(c.matchIndexes) && c.commitIndex == old(c.commitIndex)

// ---------------------------------------------------------------------------
// C07: configurations

//@ spec func validConfiguration(cfg Configuration) bool =
//@   (forall i int :: 0 <= i && i < len(cfg.Servers) ==> cfg.Servers[i].ID != "" && cfg.Servers[i].Address != "") &&
//@   (forall i int, j int :: 0 <= i && i < j && j < len(cfg.Servers) ==>
//@       cfg.Servers[i].ID != cfg.Servers[j].ID && cfg.Servers[i].Address != cfg.Servers[j].Address) &&
//@   (exists i int :: 0 <= i && i < len(cfg.Servers) && cfg.Servers[i].Suffrage == Voter)

//@ func checkConfiguration
//@   modifies nothing
//@   ensures  iff: (result == nil) == validConfiguration(configuration)
//@   loop 1 invariant nonempty: forall k int :: 0 <= k && k < #i ==> configuration.Servers[k].ID != "" && configuration.Servers[k].Address != ""
//@   loop 1 invariant unique: forall a int, b int :: 0 <= a && a < b && b < #i ==>
//@       configuration.Servers[a].ID != configuration.Servers[b].ID && configuration.Servers[a].Address != configuration.Servers[b].Address
//@   loop 1 invariant idset: forall id ServerID :: idSet[id] == (exists k int :: 0 <= k && k < #i && configuration.Servers[k].ID == id)
//@   loop 1 invariant addrset: forall ad ServerAddress :: addressSet[ad] == (exists k int :: 0 <= k && k < #i && configuration.Servers[k].Address == ad)
//@   loop 1 invariant voters: voters >= 0 && voters <= #i && ((voters > 0) == (exists k int :: 0 <= k && k < #i && configuration.Servers[k].Suffrage == Voter))
//@   loop 1 invariant fresh: isfresh(idSet) && isfresh(addressSet)

//@ func hasVote
//@   modifies nothing
//@   ensures  first_match: result == (exists i int :: 0 <= i && i < len(configuration.Servers) && configuration.Servers[i].ID == id &&
//@                configuration.Servers[i].Suffrage == Voter &&
//@                (forall k int :: 0 <= k && k < i ==> configuration.Servers[k].ID != id))
//@   loop 1 invariant none_before: forall k int :: 0 <= k && k < #i ==> configuration.Servers[k].ID != id

//@ func inConfiguration
//@   modifies nothing
//@   ensures  member: result == (exists i int :: 0 <= i && i < len(configuration.Servers) && configuration.Servers[i].ID == id)
//@   loop 1 invariant none_before: forall k int :: 0 <= k && k < #i ==> configuration.Servers[k].ID != id

//@ func nextConfiguration
//@   modifies nothing
//@   ensures  stale_prev_rejected: change.prevIndex > 0 && change.prevIndex != currentIndex ==> result1 != nil && len(result0.Servers) == 0
//@   ensures  error_means_empty: result1 != nil ==> len(result0.Servers) == 0
//@   ensures  valid: result1 == nil ==> validConfiguration(result0)
//@   ensures  one_voter_delta_add [when change.command == AddVoter]: result1 == nil ==> forall id ServerID :: id != change.serverID ==> isVoter(result0, id) == isVoter(current, id)
//@   ensures  one_voter_delta_nonvoter [when change.command == AddNonvoter]: result1 == nil ==> forall id ServerID :: id != change.serverID ==> isVoter(result0, id) == isVoter(current, id)
//@   ensures  one_voter_delta_demote [when change.command == DemoteVoter]: result1 == nil ==> forall id ServerID :: id != change.serverID ==> isVoter(result0, id) == isVoter(current, id)
//@   ensures  remove_no_new_voter [when change.command == RemoveServer]: result1 == nil ==> forall id ServerID :: id != change.serverID && isVoter(result0, id) ==> isVoter(current, id)
//@   ensures  remove_pointwise [when change.command == RemoveServer]: result1 == nil ==>
//@              forall k int :: 0 <= k && k < len(current.Servers) && current.Servers[k].ID != change.serverID ==>
//@                (k < len(result0.Servers) && result0.Servers[k] == current.Servers[k]) ||
//@                (k >= 1 && k-1 < len(result0.Servers) && result0.Servers[k-1] == current.Servers[k])
//@   ensures  remove_keeps_others [from remove_pointwise]: change.command == RemoveServer && result1 == nil ==>
//@              forall id ServerID :: id != change.serverID && isVoter(current, id) ==> isVoter(result0, id)
//@   ensures  one_voter_delta_promote [when change.command == Promote]: result1 == nil ==> forall id ServerID :: id != change.serverID ==> isVoter(result0, id) == isVoter(current, id)
//@   ensures  one_voter_delta_other: result1 == nil && change.command != AddVoter && change.command != AddNonvoter && change.command != DemoteVoter && change.command != RemoveServer && change.command != Promote ==>
//@              forall id ServerID :: isVoter(result0, id) == isVoter(current, id)
//@   ensures  no_alias: result1 == nil ==> isfresh(result0.Servers)
