//go:build verif

// Contracts for the deductive verifier in /verif/govc (comment-only file: it
// declares nothing and, with the build tag off, is not even compiled).
// Syntax: see /verif/DESIGN.md section 3.

package raft

// ---------------------------------------------------------------------------
// Ghost models and assumed interface contracts (trusted base)

//@ addressable logFuture.log
//@ addressable fileSnapshotMeta.SnapshotMeta
//@ addressable configurationChangeFuture.logFuture
//@ addressable Server.ID
//@ addressable Server.Address

//@ model LogStore { has map[uint64]bool; ent map[uint64]Log; first uint64; last uint64 }

//@ interface LogStore.GetLog(index, log)
//@   requires lognonnil: log != nil
//@   modifies *log
//@   ensures  found:    result == nil ==> this.has[index] && *log == this.ent[index] && log.Index == index
//@   ensures  notfound: !this.has[index] ==> result != nil

//@ interface LogStore.StoreLogs(logs)
//@   requires nonnil:   forall k int :: 0 <= k && k < len(logs) ==> logs[k] != nil
//@   requires distinct: forall a int, b int :: 0 <= a && a < b && b < len(logs) ==> logs[a].Index != logs[b].Index
//@   modifies this.has, this.ent, this.first, this.last
//@   ensures  stored:   result == nil ==> forall k int :: 0 <= k && k < len(logs) ==>
//@                        this.has[logs[k].Index] && this.ent[logs[k].Index] == *logs[k]
//@   ensures  others:   result == nil ==> forall i uint64 ::
//@                        (forall k int :: 0 <= k && k < len(logs) ==> logs[k].Index != i) ==>
//@                        this.has[i] == old(this.has[i]) && this.ent[i] == old(this.ent[i])
//@   ensures  atomic:   result != nil ==> this.has == old(this.has) && this.ent == old(this.ent) && this.first == old(this.first) && this.last == old(this.last)

//@ interface LogStore.DeleteRange(min, max)
//@   modifies this.has, this.ent, this.first, this.last
//@   ensures  deleted:  result == nil ==> forall i uint64 :: this.has[i] == (old(this.has[i]) && !(min <= i && i <= max))
//@   ensures  kept:     forall i uint64 :: this.has[i] ==> old(this.has[i]) && this.ent[i] == old(this.ent[i])
//@   ensures  atomic:   result != nil ==> this.has == old(this.has) && this.ent == old(this.ent) && this.first == old(this.first) && this.last == old(this.last)

//@ interface LogStore.FirstIndex()
//@   modifies nothing
//@   ensures  value: result1 == nil ==> result0 == this.first
//@   ensures  lower_bound: result1 == nil ==> forall i uint64 :: this.has[i] ==> result0 != 0 && result0 <= i

//@ interface LogStore.LastIndex()
//@   modifies nothing
//@   ensures  value: result1 == nil ==> result0 == this.last
//@   ensures  upper_bound: result1 == nil ==> forall i uint64 :: this.has[i] ==> 1 <= i && i <= result0

// ---------------------------------------------------------------------------
// C19: LogCache

//@ spec func CacheInv(c *LogCache) bool =
//@   len(c.cache) > 0 && forall j int :: 0 <= j && j < len(c.cache) && c.cache[j] != nil ==>
//@     c.cache[j].Index % len(c.cache) == j && c.store.has[c.cache[j].Index] && *c.cache[j] == c.store.ent[c.cache[j].Index]

//@ func NewLogCache
//@   modifies nothing
//@   ensures  capacity_check: (capacity <= 0) == (result1 != nil)
//@   ensures  nil_on_error: result1 != nil ==> result0 == nil
//@   ensures  inv: result1 == nil ==> result0 != nil && isfresh(result0) && result0.store == store && len(result0.cache) == capacity && CacheInv(result0)

//@ func (c *LogCache) GetLog
//@   requires nonnil: c != nil && log != nil && c.store != nil
//@   requires inv: CacheInv(c)
//@   requires noalias: forall j int :: 0 <= j && j < len(c.cache) ==> c.cache[j] != log
//@   modifies *log
//@   safe
//@   ensures  hit_is_current: result == nil ==> c.store.has[idx] && *log == c.store.ent[idx]
//@   ensures  miss_forwards:  !c.store.has[idx] ==> result != nil
//@   ensures  inv: CacheInv(c)

//@ func (c *LogCache) StoreLogs
//@   requires nonnil: c != nil && c.store != nil
//@   requires inv: CacheInv(c)
//@   requires lognonnil: forall k int :: 0 <= k && k < len(logs) ==> logs[k] != nil
//@   requires distinct: forall a int, b int :: 0 <= a && a < b && b < len(logs) ==> logs[a].Index != logs[b].Index
//@   requires private_cache: arrayof(logs) != arrayof(c.cache)
//@   modifies c.store.has, c.store.ent, c.store.first, c.store.last, c.cache[*]
//@   safe
//@   ensures  stored:   result == nil ==> forall k int :: 0 <= k && k < len(logs) ==>
//@                        c.store.has[logs[k].Index] && c.store.ent[logs[k].Index] == *logs[k]
//@   ensures  others:   result == nil ==> forall i uint64 ::
//@                        (forall k int :: 0 <= k && k < len(logs) ==> logs[k].Index != i) ==>
//@                        c.store.has[i] == old(c.store.has[i]) && c.store.ent[i] == old(c.store.ent[i])
//@   ensures  atomic:   result != nil ==> c.store.has == old(c.store.has) && c.store.ent == old(c.store.ent)
//@   ensures  cache_untouched_on_error: result != nil ==> forall j int :: 0 <= j && j < len(c.cache) ==> c.cache[j] == old(c.cache[j])
//@   ensures  inv: CacheInv(c)
//@   loop 1 invariant slots: len(c.cache) > 0 && forall j int ::
//@       0 <= j && j < len(c.cache) && c.cache[j] != nil ==>
//@         c.cache[j].Index % len(c.cache) == j &&
//@         ( (c.store.has[c.cache[j].Index] && *c.cache[j] == c.store.ent[c.cache[j].Index])
//@           || exists k int :: #i <= k && k < len(logs) && logs[k].Index == c.cache[j].Index )

//@ func (c *LogCache) StoreLog
//@   requires nonnil: c != nil && log != nil && c.store != nil
//@   requires inv: CacheInv(c)
//@   modifies c.store.has, c.store.ent, c.store.first, c.store.last, c.cache[*]
//@   ensures  stored: result == nil ==> c.store.has[log.Index] && c.store.ent[log.Index] == *log
//@   ensures  others: result == nil ==> forall i uint64 :: i != log.Index ==>
//@                        c.store.has[i] == old(c.store.has[i]) && c.store.ent[i] == old(c.store.ent[i])
//@   ensures  inv: CacheInv(c)

//@ func (c *LogCache) DeleteRange
//@   requires nonnil: c != nil && c.store != nil
//@   requires inv: CacheInv(c)
//@   modifies c.cache, c.store.has, c.store.ent, c.store.first, c.store.last
//@   safe
//@   ensures  cleared: forall j int :: 0 <= j && j < len(c.cache) ==> c.cache[j] == nil
//@   ensures  same_capacity: len(c.cache) == old(len(c.cache))
//@   ensures  deleted:  result == nil ==> forall i uint64 :: c.store.has[i] == (old(c.store.has[i]) && !(min <= i && i <= max))
//@   ensures  kept:     forall i uint64 :: c.store.has[i] ==> old(c.store.has[i]) && c.store.ent[i] == old(c.store.ent[i])
//@   ensures  inv: CacheInv(c)

//@ func (c *LogCache) FirstIndex
//@   requires nonnil: c != nil && c.store != nil
//@   modifies nothing
//@   ensures  forwarded: result1 == nil ==> result0 == c.store.first

//@ func (c *LogCache) LastIndex
//@   requires nonnil: c != nil && c.store != nil
//@   modifies nothing
//@   ensures  forwarded: result1 == nil ==> result0 == c.store.last

// ---------------------------------------------------------------------------
// C05: commitment

//@ func (c *commitment) recalculate
//@   requires cnonnil: c != nil
//@   modifies c.commitIndex, sent(c.commitCh)
//@   ensures  monotone:   c.commitIndex >= old(c.commitIndex)
//@   ensures  term_rule:  c.commitIndex != old(c.commitIndex) ==> c.commitIndex >= c.startIndex
//@   ensures  majority_size: c.commitIndex != old(c.commitIndex) ==>
//@              2*(card(c.matchIndexes) - (card(c.matchIndexes)-1)/2) > card(c.matchIndexes)
//@   ensures  strict_majority: c.commitIndex != old(c.commitIndex) ==>
//@              forall j int :: (card(c.matchIndexes)-1)/2 <= j && j < card(c.matchIndexes) ==>
//@                dom(c.matchIndexes, #key(#perm(j))) && c.matchIndexes[#key(#perm(j))] >= c.commitIndex
//@   ensures  distinct_voters: forall a int, b int :: 0 <= a && a < b && b < card(c.matchIndexes) ==>
//@              #key(#perm(a)) != #key(#perm(b))
//@   ensures  notify_iff_advanced: sent(c.commitCh) != old(sent(c.commitCh)) ==> c.commitIndex != old(c.commitIndex)
//@   ensures  map_unchanged: card(c.matchIndexes) == old(card(c.matchIndexes))
//@   loop 1 invariant size: len(matched) == #i && cap(matched) >= #card
//@   loop 1 invariant gather: forall j int :: 0 <= j && j < #i ==> matched[j] == c.matchIndexes[#key(j)]

//@ func (c *commitment) match
//@   requires cnonnil: c != nil
//@   modifies c.matchIndexes[*], c.commitIndex, sent(c.commitCh)
//@   ensures  nonvoter_ignored: !old(dom(c.matchIndexes, server)) ==>
//@              c.commitIndex == old(c.commitIndex) &&
//@              (forall k ServerID :: dom(c.matchIndexes, k) == old(dom(c.matchIndexes, k)) && c.matchIndexes[k] == old(c.matchIndexes[k]))
//@   ensures  monotone_entry: old(dom(c.matchIndexes, server)) ==>
//@              c.matchIndexes[server] == max(old(c.matchIndexes[server]), matchIndex)
//@   ensures  others_unchanged: forall k ServerID :: k != server ==>
//@              dom(c.matchIndexes, k) == old(dom(c.matchIndexes, k)) && c.matchIndexes[k] == old(c.matchIndexes[k])
//@   ensures  dom_unchanged: forall k ServerID :: dom(c.matchIndexes, k) == old(dom(c.matchIndexes, k))
//@   ensures  monotone: c.commitIndex >= old(c.commitIndex)
//@   ensures  term_rule: c.commitIndex != old(c.commitIndex) ==> c.commitIndex >= c.startIndex
//@   ensures  same_map: c.matchIndexes == old(c.matchIndexes)

//@ func (c *commitment) getCommitIndex
//@   requires cnonnil: c != nil
//@   modifies nothing
//@   ensures  value: result == c.commitIndex

//@ spec func isVoterAt(cfg Configuration, i int) bool = cfg.Servers[i].Suffrage == Voter
//@ spec func isVoter(cfg Configuration, id ServerID) bool =
//@   exists i int :: 0 <= i && i < len(cfg.Servers) && cfg.Servers[i].ID == id && cfg.Servers[i].Suffrage == Voter

//@ func newCommitment
//@   modifies nothing
//@   ensures  nonnil: result != nil && isfresh(result)
//@   ensures  fields: result.commitIndex == 0 && result.startIndex == startIndex && result.commitCh == commitCh
//@   ensures  dom_is_voter_set: forall id ServerID :: dom(result.matchIndexes, id) == isVoter(configuration, id)
//@   ensures  all_zero: forall id ServerID :: result.matchIndexes[id] == 0
//@   loop 1 invariant dom: forall id ServerID :: dom(matchIndexes, id) ==
//@        (exists i int :: 0 <= i && i < #i && configuration.Servers[i].ID == id && configuration.Servers[i].Suffrage == Voter)
//@   loop 1 invariant zero: forall id ServerID :: matchIndexes[id] == 0

//@ func (c *commitment) setConfiguration
//@   requires cnonnil: c != nil
//@   modifies c.matchIndexes, c.commitIndex, sent(c.commitCh)
//@   ensures  dom_is_voter_set: forall id ServerID :: dom(c.matchIndexes, id) == isVoter(configuration, id)
//@   ensures  retained: forall id ServerID :: dom(c.matchIndexes, id) ==> c.matchIndexes[id] == old(c.matchIndexes[id])
//@   ensures  monotone: c.commitIndex >= old(c.commitIndex)
//@   ensures  term_rule: c.commitIndex != old(c.commitIndex) ==> c.commitIndex >= c.startIndex
//@   loop 1 invariant dom: forall id ServerID :: dom(c.matchIndexes, id) ==
//@        (exists i int :: 0 <= i && i < #i && configuration.Servers[i].ID == id && configuration.Servers[i].Suffrage == Voter)
//@   loop 1 invariant vals: forall id ServerID :: dom(c.matchIndexes, id) ==> c.matchIndexes[id] == old(c.matchIndexes[id])
//@   loop 1 invariant fresh: isfresh(c.matchIndexes) && c.commitIndex == old(c.commitIndex)

// ---------------------------------------------------------------------------
// C07: configurations

//@ spec func validConfiguration(cfg Configuration) bool =
//@   (forall i int :: 0 <= i && i < len(cfg.Servers) ==> cfg.Servers[i].ID != "" && cfg.Servers[i].Address != "") &&
//@   (forall i int, j int :: 0 <= i && i < j && j < len(cfg.Servers) ==>
//@       cfg.Servers[i].ID != cfg.Servers[j].ID && cfg.Servers[i].Address != cfg.Servers[j].Address) &&
//@   (exists i int :: 0 <= i && i < len(cfg.Servers) && cfg.Servers[i].Suffrage == Voter)

//@ func checkConfiguration
//@   modifies nothing
//@   ensures  iff: (result == nil) == validConfiguration(configuration)
//@   loop 1 invariant nonempty: forall k int :: 0 <= k && k < #i ==> configuration.Servers[k].ID != "" && configuration.Servers[k].Address != ""
//@   loop 1 invariant unique: forall a int, b int :: 0 <= a && a < b && b < #i ==>
//@       configuration.Servers[a].ID != configuration.Servers[b].ID && configuration.Servers[a].Address != configuration.Servers[b].Address
//@   loop 1 invariant idset: forall id ServerID :: idSet[id] == (exists k int :: 0 <= k && k < #i && configuration.Servers[k].ID == id)
//@   loop 1 invariant addrset: forall ad ServerAddress :: addressSet[ad] == (exists k int :: 0 <= k && k < #i && configuration.Servers[k].Address == ad)
//@   loop 1 invariant voters: voters >= 0 && voters <= #i && ((voters > 0) == (exists k int :: 0 <= k && k < #i && configuration.Servers[k].Suffrage == Voter))
//@   loop 1 invariant fresh: isfresh(idSet) && isfresh(addressSet)

//@ func hasVote
//@   modifies nothing
//@   ensures  first_match: result == (exists i int :: 0 <= i && i < len(configuration.Servers) && configuration.Servers[i].ID == id &&
//@                configuration.Servers[i].Suffrage == Voter &&
//@                (forall k int :: 0 <= k && k < i ==> configuration.Servers[k].ID != id))
//@   loop 1 invariant none_before: forall k int :: 0 <= k && k < #i ==> configuration.Servers[k].ID != id

//@ func inConfiguration
//@   modifies nothing
//@   ensures  member: result == (exists i int :: 0 <= i && i < len(configuration.Servers) && configuration.Servers[i].ID == id)
//@   loop 1 invariant none_before: forall k int :: 0 <= k && k < #i ==> configuration.Servers[k].ID != id

//@ func nextConfiguration
//@   modifies nothing
//@   ensures  stale_prev_rejected: change.prevIndex > 0 && change.prevIndex != currentIndex ==> result1 != nil && len(result0.Servers) == 0
//@   ensures  error_means_empty: result1 != nil ==> len(result0.Servers) == 0
//@   ensures  valid: result1 == nil ==> validConfiguration(result0)
//@   ensures  one_voter_delta_add [when change.command == AddVoter]: result1 == nil ==> forall id ServerID :: id != change.serverID ==> isVoter(result0, id) == isVoter(current, id)
//@   ensures  one_voter_delta_nonvoter [when change.command == AddNonvoter]: result1 == nil ==> forall id ServerID :: id != change.serverID ==> isVoter(result0, id) == isVoter(current, id)
//@   ensures  one_voter_delta_demote [when change.command == DemoteVoter]: result1 == nil ==> forall id ServerID :: id != change.serverID ==> isVoter(result0, id) == isVoter(current, id)
//@   ensures  remove_no_new_voter [when change.command == RemoveServer]: result1 == nil ==> forall id ServerID :: id != change.serverID && isVoter(result0, id) ==> isVoter(current, id)
//@   ensures  remove_pointwise [when change.command == RemoveServer]: result1 == nil ==>
//@              forall k int :: 0 <= k && k < len(current.Servers) && current.Servers[k].ID != change.serverID ==>
//@                (k < len(result0.Servers) && result0.Servers[k] == current.Servers[k]) ||
//@                (k >= 1 && k-1 < len(result0.Servers) && result0.Servers[k-1] == current.Servers[k])
//@   ensures  remove_keeps_others [from remove_pointwise]: change.command == RemoveServer && result1 == nil ==>
//@              forall id ServerID :: id != change.serverID && isVoter(current, id) ==> isVoter(result0, id)
//@   ensures  one_voter_delta_promote [when change.command == Promote]: result1 == nil ==> forall id ServerID :: id != change.serverID ==> isVoter(result0, id) == isVoter(current, id)
//@   ensures  one_voter_delta_other: result1 == nil && change.command != AddVoter && change.command != AddNonvoter && change.command != DemoteVoter && change.command != RemoveServer && change.command != Promote ==>
//@              forall id ServerID :: isVoter(result0, id) == isVoter(current, id)
//@   ensures  no_alias: result1 == nil ==> isfresh(result0.Servers)

// ---------------------------------------------------------------------------
// C01 / C05 / C07: quorum size

//@ spec func voterCount(cfg Configuration) int = count(k, len(cfg.Servers), cfg.Servers[k].Suffrage == Voter)

//@ func (r *Raft) quorumSize
//@   requires nonnil: r != nil
//@   modifies nothing
//@   ensures  value: result == voterCount(r.configurations.latest)/2 + 1
//@   ensures  strict_majority: 2*result > voterCount(r.configurations.latest)
//@   ensures  at_most_all: voterCount(r.configurations.latest) >= 1 ==> result <= voterCount(r.configurations.latest)
//@   loop 1 invariant prefix: voters == count(k, #i, r.configurations.latest.Servers[k].Suffrage == Voter)

//@ lemma quorum_intersection(n int, a int, b int)
//@   requires n >= 1 && a >= n/2 + 1 && b >= n/2 + 1 && a <= n && b <= n
//@   ensures  overlap: a + b > n

//@ lemma quorum_intersection_single_change(n int, m int)
//@   requires n >= 1 && m >= 1 && (m == n || m == n + 1 || m == n - 1)
//@   ensures  overlap: (n/2 + 1) + (m/2 + 1) > max(n, m)

//@ lemma median_is_majority(n int)
//@   requires n >= 1
//@   ensures  majority: 2*(n - (n-1)/2) > n

// ---------------------------------------------------------------------------
// C11: compaction arithmetic

//@ func (r *Raft) compactLogsWithTrailing
//@   requires nonnil: r != nil && r.logs != nil
//@   modifies r.logs.has, r.logs.ent, r.logs.first, r.logs.last
//@   ensures  deletes_le_snapshot: forall i uint64 :: old(r.logs.has[i]) && !r.logs.has[i] ==> i <= snapIdx
//@   ensures  keeps_trailing: forall i uint64 :: old(r.logs.has[i]) && !r.logs.has[i] ==> i + trailingLogs <= lastLogIdx
//@   ensures  deletes_from_first: forall i uint64 :: old(r.logs.has[i]) && !r.logs.has[i] ==> i >= old(r.logs.first)
//@   ensures  kept_unchanged: forall i uint64 :: r.logs.has[i] ==> old(r.logs.has[i]) && r.logs.ent[i] == old(r.logs.ent[i])
//@   ensures  short_log_untouched: lastLogIdx <= trailingLogs ==> r.logs.has == old(r.logs.has) && r.logs.ent == old(r.logs.ent)
//@   ensures  error_untouched: result != nil ==> r.logs.has == old(r.logs.has) && r.logs.ent == old(r.logs.ent)
//@   ensures  prefix_removed: result == nil && lastLogIdx > trailingLogs ==>
//@              forall i uint64 :: r.logs.has[i] == (old(r.logs.has[i]) && i > min(snapIdx, lastLogIdx - trailingLogs))
//@   ensures  one_prefix: result == nil && (exists i uint64 :: old(r.logs.has[i]) && !r.logs.has[i]) ==>
//@              forall i uint64 :: r.logs.has[i] == (old(r.logs.has[i]) && !(old(r.logs.first) <= i && i <= min(snapIdx, lastLogIdx - trailingLogs)))

// ---------------------------------------------------------------------------
// StableStore / Transport: ghost models and assumed contracts (trusted base)
// Keys and values are identified by their byte contents (content(b)).

//@ model StableStore { has map[string]bool; val map[string]string; nilval map[string]bool; hasu map[string]bool; u64 map[string]uint64 }

//@ interface StableStore.Set(key, val)
//@   modifies this.has, this.val, this.nilval
//@   ensures  ok:  result == nil ==> this.has[content(key)] && this.val[content(key)] == content(val) &&
//@                   (forall k string :: k != content(key) ==> this.has[k] == old(this.has[k]) && this.val[k] == old(this.val[k]))
//@   ensures  err: result != nil ==> this.has == old(this.has) && this.val == old(this.val) && this.nilval == old(this.nilval)
//@   ensures  othernil: forall k string :: k != content(key) ==> this.nilval[k] == old(this.nilval[k])

//@ interface StableStore.Get(key)
//@   modifies nothing
//@   ensures  found:  result1 == nil && this.has[content(key)] ==> content(result0) == this.val[content(key)] && (result0 == nil) == this.nilval[content(key)]
//@   ensures  absent: !this.has[content(key)] ==> result0 == nil && (result1 == nil || errmsg(result1) == "not found")
//@   ensures  notfound_means_absent: result1 != nil && errmsg(result1) == "not found" ==> !this.has[content(key)]

//@ interface StableStore.SetUint64(key, val)
//@   modifies this.hasu, this.u64
//@   ensures  ok:  result == nil ==> this.hasu[content(key)] && this.u64[content(key)] == val &&
//@                   (forall k string :: k != content(key) ==> this.hasu[k] == old(this.hasu[k]) && this.u64[k] == old(this.u64[k]))
//@   ensures  err: result != nil ==> this.hasu == old(this.hasu) && this.u64 == old(this.u64)

//@ interface StableStore.GetUint64(key)
//@   modifies nothing
//@   ensures  found:  result1 == nil && this.hasu[content(key)] ==> result0 == this.u64[content(key)]
//@   ensures  absent: !this.hasu[content(key)] ==> result0 == 0 && (result1 == nil || errmsg(result1) == "not found")
//@   ensures  notfound_means_absent: result1 != nil && errmsg(result1) == "not found" ==> !this.hasu[content(key)]

//@ axiom stable_keys: content(keyCurrentTerm) != content(keyLastVoteTerm) && content(keyCurrentTerm) != content(keyLastVoteCand) && content(keyLastVoteTerm) != content(keyLastVoteCand)

//@ func (r *Raft) observe
//@   trusted notifies registered observers over their own channels; reads but never writes raft state
//@   modifies nothing

//@ func encodePeers
//@   trusted serialisation for protocol version < 2 peers; pure
//@   modifies nothing

//@ uf decodePeerOf(string) ServerAddress
//@ uf encodePeerOf(ServerID, ServerAddress) string

//@ interface Transport.DecodePeer(buf)
//@   modifies nothing
//@   ensures  pure: result == decodePeerOf(content(buf))

//@ interface Transport.EncodePeer(id, addr)
//@   modifies nothing
//@   ensures  pure: content(result) == encodePeerOf(id, addr)

// ---------------------------------------------------------------------------
// C06 / C01 / C03: votes and terms

//@ spec func curTermDurable(r *Raft) uint64 = ite(r.stable.hasu[content(keyCurrentTerm)], r.stable.u64[content(keyCurrentTerm)], 0)
//@ spec func voteTerm(r *Raft) uint64 = ite(r.stable.hasu[content(keyLastVoteTerm)], r.stable.u64[content(keyLastVoteTerm)], 0)
//@ spec func voteCandSet(r *Raft) bool = r.stable.has[content(keyLastVoteCand)] && !r.stable.nilval[content(keyLastVoteCand)]
//@ spec func voteCand(r *Raft) string = r.stable.val[content(keyLastVoteCand)]
//@ spec func voteResp(rpc RPC) *RequestVoteResponse = cast(lastsent(rpc.RespChan).Response, *RequestVoteResponse)
//@ spec func candOf(req *RequestVoteRequest) string = ite(len(req.Addr) > 0, content(req.Addr), content(req.Candidate))
//@ spec func lastEntryIndex(r *Raft) uint64 = ite(r.lastLogIndex >= r.lastSnapshotIndex, r.lastLogIndex, r.lastSnapshotIndex)
//@ spec func lastEntryTerm(r *Raft) uint64 = ite(r.lastLogIndex >= r.lastSnapshotIndex, r.lastLogTerm, r.lastSnapshotTerm)
//@ spec func hasVoteSpec(cfg Configuration, id ServerID) bool =
//@   exists i int :: 0 <= i && i < len(cfg.Servers) && cfg.Servers[i].ID == id && cfg.Servers[i].Suffrage == Voter &&
//@     (forall k int :: 0 <= k && k < i ==> cfg.Servers[k].ID != id)

//@ func (r *Raft) persistVote
//@   requires nonnil: r != nil && r.stable != nil
//@   requires vote_le_current: voteTerm(r) <= curTermDurable(r)
//@   requires own_term: term == curTermDurable(r)
//@   modifies r.stable.has, r.stable.val, r.stable.nilval, r.stable.hasu, r.stable.u64
//@   ensures  ok: result == nil ==> voteTerm(r) == term && voteCand(r) == content(candidate)
//@   observe old_cur_term: curTermDurable(r)
//@   observe old_vote_term: voteTerm(r)
//@   observe old_cand: ite(voteCandSet(r), voteCand(r), "")
//@   observe new_cand: content(candidate)
//@   ensures  current_term_untouched: curTermDurable(r) == old(curTermDurable(r))
//@   ensures  vote_term_bounded: voteTerm(r) == old(voteTerm(r)) || voteTerm(r) == term
//@   crash_invariant record_atomic: voteTerm(r) >= curTermDurable(r) && voteCandSet(r) ==>
//@       (voteTerm(r) == old(voteTerm(r)) && voteCand(r) == old(voteCand(r)) && old(voteCandSet(r))) ||
//@       (voteTerm(r) == term && voteCand(r) == content(candidate))

//@ func (r *Raft) setCurrentTerm
//@   requires nonnil: r != nil && r.stable != nil
//@   modifies r.stable.hasu, r.stable.u64, r.currentTerm
//@   ensures  persisted: curTermDurable(r) == t && r.currentTerm == t
//@   ensures  votes_untouched: voteTerm(r) == old(voteTerm(r))
//@   ensures  panics_before_memory_update: r.currentTerm == old(r.currentTerm) on_panic

//@ func (r *Raft) requestVote
//@   requires nonnil: r != nil && req != nil && r.stable != nil && r.trans != nil && r.logger != nil && rpc.RespChan != nil
//@   requires term_inv: r.currentTerm == curTermDurable(r)
//@   requires vote_le_current: voteTerm(r) <= curTermDurable(r)
//@   ensures  vote_le_current: voteTerm(r) <= curTermDurable(r)
//@   ensures  responded: sent(rpc.RespChan) == old(sent(rpc.RespChan)) + 1 && typeis(lastsent(rpc.RespChan).Response, *RequestVoteResponse)
//@   ensures  term_inv: r.currentTerm == curTermDurable(r)
//@   ensures  term_monotone: r.currentTerm >= old(r.currentTerm)
//@   ensures  one_vote_per_term: voteResp(rpc).Granted ==> voteTerm(r) == req.Term && voteCand(r) == candOf(req)
//@   ensures  no_second_candidate: voteResp(rpc).Granted && old(voteTerm(r)) == req.Term && old(voteCandSet(r)) ==> candOf(req) == old(voteCand(r))
//@   ensures  grant_in_current_term: voteResp(rpc).Granted ==> r.currentTerm == req.Term
//@   ensures  grant_requires_uptodate_log: voteResp(rpc).Granted && !(old(voteTerm(r)) == req.Term && old(voteCandSet(r))) ==>
//@              !(lastEntryTerm(r) > req.LastLogTerm) && !(lastEntryTerm(r) == req.LastLogTerm && lastEntryIndex(r) > req.LastLogIndex)
//@   ensures  grant_requires_voter: voteResp(rpc).Granted && len(req.ID) > 0 && len(r.configurations.latest.Servers) > 0 ==>
//@              hasVoteSpec(r.configurations.latest, ServerID(content(req.ID)))
//@   ensures  stale_term_ignored: req.Term < old(r.currentTerm) ==> !voteResp(rpc).Granted && r.currentTerm == old(r.currentTerm) &&
//@              r.state == old(r.state) && voteTerm(r) == old(voteTerm(r)) && r.stable.val == old(r.stable.val) && r.stable.has == old(r.stable.has)
//@   ensures  term_change_resets_role: r.currentTerm != old(r.currentTerm) ==> r.state == Follower
//@   ensures  term_change_clears_leader: r.currentTerm != old(r.currentTerm) ==> r.leaderAddr == "" && r.leaderID == ""
//@   ensures  refuse_while_leader_known: old(r.leaderAddr) != "" && old(r.leaderAddr) != decodePeerOf(candOf(req)) && !req.LeadershipTransfer ==> !voteResp(rpc).Granted
//@   ensures  log_untouched: r.lastLogIndex == old(r.lastLogIndex) && r.lastLogTerm == old(r.lastLogTerm) && r.commitIndex == old(r.commitIndex) && r.lastApplied == old(r.lastApplied)

// ---------------------------------------------------------------------------
// C09: VerifyLeader

//@ func (r *Raft) verifyLeader
//@   requires nonnil: r != nil && v != nil && r.leaderState.replState != nil && r.leaderState.notify != nil
//@   requires repl_nonnil: forall id ServerID :: dom(r.leaderState.replState, id) ==>
//@              r.leaderState.replState[id] != nil && r.leaderState.replState[id].notify != nil
//@   requires repl_distinct: forall a ServerID, b ServerID :: a != b && dom(r.leaderState.replState, a) && dom(r.leaderState.replState, b) ==>
//@              r.leaderState.replState[a] != r.leaderState.replState[b] && r.leaderState.replState[a].notify != r.leaderState.replState[b].notify
//@   requires notify_disjoint: forall id ServerID :: dom(r.leaderState.replState, id) ==> r.leaderState.replState[id].notify != r.leaderState.notify
//@   ensures  tally_init: v.votes == 1 && v.quorumSize == voterCount(r.configurations.latest)/2 + 1
//@   ensures  registered_only_with_voters: forall id ServerID :: dom(r.leaderState.replState, id) &&
//@              dom(r.leaderState.replState[id].notify, v) && !old(dom(r.leaderState.replState[id].notify, v)) ==>
//@              hasVoteSpec(r.configurations.latest, id)
//@   ensures  fast_path_only_single_voter: sent(v.errCh) != old(sent(v.errCh)) ==> v.quorumSize == 1
//@   loop 1 invariant registered: forall id ServerID :: dom(r.leaderState.replState, id) &&
//@              dom(r.leaderState.replState[id].notify, v) && !old(dom(r.leaderState.replState[id].notify, v)) ==>
//@              hasVoteSpec(r.configurations.latest, id)
//@   loop 1 invariant stable: v.votes == 1 && v.quorumSize == voterCount(r.configurations.latest)/2 + 1 && v.quorumSize != 1 && sent(v.errCh) == old(sent(v.errCh))

//@ func (v *verifyFuture) vote
//@   requires nonnil: v != nil
//@   requires votes_bounded: v.votes < MaxInt63
//@   modifies v.votes, v.notifyCh, sent(v.notifyCh)
//@   ensures  one_vote: v.votes == old(v.votes) || (leader && v.votes == old(v.votes) + 1)
//@   ensures  positive_needs_quorum: leader && sent(old(v.notifyCh)) != old(sent(v.notifyCh)) ==> v.votes >= v.quorumSize
//@   ensures  notified_once: sent(old(v.notifyCh)) != old(sent(v.notifyCh)) ==> v.notifyCh == nil
//@   ensures  silent_after_notification: old(v.notifyCh) == nil ==> v.votes == old(v.votes)

//@ func (r *Raft) electSelf
//@   requires nonnil: r != nil && r.stable != nil && r.trans != nil && r.logger != nil
//@   requires term_inv: r.currentTerm == curTermDurable(r)
//@   requires vote_le_current: voteTerm(r) <= curTermDurable(r)
//@   requires term_bounded: r.currentTerm < MaxInt63
//@   ensures  term_bumped: r.currentTerm == old(r.currentTerm) + 1
//@   ensures  term_inv: r.currentTerm == curTermDurable(r)
//@   ensures  vote_le_current: voteTerm(r) <= curTermDurable(r)
//@   ensures  log_untouched: r.lastLogIndex == old(r.lastLogIndex) && r.lastLogTerm == old(r.lastLogTerm) && r.commitIndex == old(r.commitIndex)
//@   ensures  state_untouched: r.state == old(r.state)
//@   ensures  self_vote_only_if_voter: result != nil && sent(result) > 0 ==> isVoter(r.configurations.latest, r.localID)
//@   at call (*Raft).electSelf$1#* assert only_other_voters_are_asked: arg0.Suffrage == Voter && arg0.ID != r.localID
//@   loop 1 invariant terms: r.currentTerm == curTermDurable(r) && voteTerm(r) <= curTermDurable(r)
//@   loop 1 invariant own_vote_only_as_voter: respCh != nil && (sent(respCh) > 0 ==> exists k int :: 0 <= k && k < #i &&
//@              r.configurations.latest.Servers[k].ID == r.localID && r.configurations.latest.Servers[k].Suffrage == Voter)

//@ spec func cfg(r *Raft) Config = cast(r.conf.v, Config)

//@ func (r *Raft) compactLogs
//@   requires nonnil: r != nil && r.logs != nil
//@   requires config_loaded: typeis(r.conf.v, Config)
//@   requires snapshot_durable: snapDurable[snapIdx]
//@   modifies r.logs.has, r.logs.ent, r.logs.first, r.logs.last
//@   ensures  deletes_le_snapshot: forall i uint64 :: old(r.logs.has[i]) && !r.logs.has[i] ==> i <= snapIdx
//@   ensures  keeps_trailing_below_log_tail: forall i uint64 :: old(r.logs.has[i]) && !r.logs.has[i] ==> i + cfg(r).TrailingLogs <= r.lastLogIndex
//@   ensures  kept_unchanged: forall i uint64 :: r.logs.has[i] ==> old(r.logs.has[i]) && r.logs.ent[i] == old(r.logs.ent[i])
//@   ensures  short_log_untouched: r.lastLogIndex <= cfg(r).TrailingLogs ==> r.logs.has == old(r.logs.has) && r.logs.ent == old(r.logs.ent)

// a store that cannot hold gaps says so (ghost flag of the assumed interface contract)
//@ model MonotonicLogStore { monotonic bool }
//@ interface MonotonicLogStore.IsMonotonic()
//@   modifies nothing
//@   ensures  reports_its_kind: result == this.monotonic

//@ func (r *Raft) removeOldLogs
//@   requires nonnil: r != nil && r.logs != nil
//@   modifies r.logs.has, r.logs.ent, r.logs.first, r.logs.last
//@   ensures  wholesale: result == nil ==> forall i uint64 :: !r.logs.has[i]
//@   ensures  error_untouched: result != nil ==> r.logs.has == old(r.logs.has) && r.logs.ent == old(r.logs.ent)

// ---------------------------------------------------------------------------
// C13: leader lease

//@ spec func leaseContacted(r *Raft, n int, now time.Time, lease time.Duration) int =
//@   count(k, n, r.configurations.latest.Servers[k].Suffrage == Voter &&
//@     (r.configurations.latest.Servers[k].ID == r.localID ||
//@      timesub(now, r.leaderState.replState[r.configurations.latest.Servers[k].ID].lastContact) <= lease))

//@ func (r *Raft) checkLeaderLease
//@   requires nonnil: r != nil && typeis(r.conf.v, Config) && r.leaderState.replState != nil && r.logger != nil
//@   requires repl_covers_voters: forall k int :: 0 <= k && k < len(r.configurations.latest.Servers) &&
//@              r.configurations.latest.Servers[k].Suffrage == Voter && r.configurations.latest.Servers[k].ID != r.localID ==>
//@              r.leaderState.replState[r.configurations.latest.Servers[k].ID] != nil
//@   requires lease_positive: cfg(r).LeaderLeaseTimeout >= 0
//@   safe
//@   ensures  decision: (r.state == Follower) == (old(r.state) == Follower ||
//@              leaseContacted(r, len(r.configurations.latest.Servers), lastnow(), cfg(r).LeaderLeaseTimeout) < voterCount(r.configurations.latest)/2 + 1)
//@   loop 1 entry lease_is_configured: leaseTimeout == cfg(r).LeaderLeaseTimeout && now == lastnow()
//@   ensures  maxdiff_range: 0 <= result && result <= cfg(r).LeaderLeaseTimeout
//@   ensures  term_and_log_untouched: r.currentTerm == old(r.currentTerm) && r.lastLogIndex == old(r.lastLogIndex) && r.commitIndex == old(r.commitIndex)
//@   loop 1 invariant tally: contacted == leaseContacted(r, #i, lastnow(), cfg(r).LeaderLeaseTimeout) && 0 <= maxDiff && maxDiff <= leaseTimeout && r.state == old(r.state) && leaseTimeout == cfg(r).LeaderLeaseTimeout && now == lastnow()

// ---------------------------------------------------------------------------
// C14: pre-vote handler

//@ spec func preVoteResp(rpc RPC) *RequestPreVoteResponse = cast(lastsent(rpc.RespChan).Response, *RequestPreVoteResponse)

//@ func (r *Raft) requestPreVote
//@   requires nonnil: r != nil && req != nil && r.trans != nil && r.logger != nil && rpc.RespChan != nil && typeis(r.conf.v, Config)
//@   modifies sent(rpc.RespChan)
//@   ensures  responded: sent(rpc.RespChan) == old(sent(rpc.RespChan)) + 1 && typeis(lastsent(rpc.RespChan).Response, *RequestPreVoteResponse)
//@   ensures  no_state_change: r.currentTerm == old(r.currentTerm) && r.state == old(r.state) && r.leaderAddr == old(r.leaderAddr) &&
//@              r.leaderID == old(r.leaderID) && r.lastContact == old(r.lastContact) && r.commitIndex == old(r.commitIndex) &&
//@              r.lastLogIndex == old(r.lastLogIndex) && r.lastLogTerm == old(r.lastLogTerm)
//@   ensures  refuse_while_leader_known: r.leaderAddr != "" && r.leaderAddr != decodePeerOf(content(req.Addr)) ==> !preVoteResp(rpc).Granted
//@   ensures  stale_term_refused: req.Term < r.currentTerm ==> !preVoteResp(rpc).Granted
//@   ensures  grant_requires_uptodate_log: preVoteResp(rpc).Granted ==>
//@              !(lastEntryTerm(r) > req.LastLogTerm) && !(lastEntryTerm(r) == req.LastLogTerm && lastEntryIndex(r) > req.LastLogIndex)
//@   ensures  grant_requires_voter: preVoteResp(rpc).Granted && len(r.configurations.latest.Servers) > 0 ==>
//@              hasVoteSpec(r.configurations.latest, ServerID(content(req.ID)))

// ---------------------------------------------------------------------------
// C04 / C03 / C05 (follower side): AppendEntries handler

//@ func DecodeConfiguration
//@   trusted msgpack decoding (third-party codec): returns some configuration, panics on malformed input, writes nothing
//@   modifies nothing

//@ func decodePeers
//@   trusted legacy peer-list decoding (third-party codec): writes nothing
//@   modifies nothing

//@ func (r *Raft) processConfigurationLogEntry
//@   requires nonnil: r != nil && entry != nil && r.trans != nil
//@   modifies r.configurations.committed, r.configurations.committedIndex, r.configurations.latest, r.configurations.latestIndex, r.latestConfiguration
//@   ensures  other_types_untouched: entry.Type != LogConfiguration && entry.Type != LogAddPeerDeprecated && entry.Type != LogRemovePeerDeprecated ==>
//@              r.configurations.latestIndex == old(r.configurations.latestIndex) && r.configurations.committedIndex == old(r.configurations.committedIndex) &&
//@              r.configurations.latest == old(r.configurations.latest) && r.configurations.committed == old(r.configurations.committed)
//@   ensures  configuration_entry: entry.Type == LogConfiguration ==> result == nil &&
//@              r.configurations.latestIndex == entry.Index && r.configurations.committedIndex == old(r.configurations.latestIndex) &&
//@              r.configurations.committed == old(r.configurations.latest)

//@ func (r *Raft) processLogs
//@   requires nonnil: r != nil && r.logs != nil && r.logger != nil && typeis(r.conf.v, Config)
//@   requires only_committed: index <= r.commitIndex
//@   requires futures_by_index: forall i uint64 :: dom(futures, i) ==> futures[i] != nil && futures[i].log.Index == i
//@   requires index_range: index < MaxInt63
//@   modifies r.lastApplied, sent(r.fsmMutateCh), allof("H.logFuture."), allof("CH.sent.error"), allof("CH.last.error"), allof("CH.closed"), allof("CH.sent.interface"), allof("CH.last.interface"), received(r.shutdownCh)
//@   ensures  applied: r.lastApplied == max(old(r.lastApplied), index)
//@   ensures  old_index_sends_nothing: index <= old(r.lastApplied) ==> sent(r.fsmMutateCh) == old(sent(r.fsmMutateCh))
//@   ensures  no_skip: forall i uint64 :: old(r.lastApplied) < i && i <= index && !dom(futures, i) ==> r.logs.has[i]
//@   ensures  futures_map_untouched: forall i uint64 :: dom(futures, i) == old(dom(futures, i))
//@   at call (*deferError).respond#1 assert barrier_and_commands_go_through_the_fsm: futureOk && future.log.Type != LogBarrier && future.log.Type != LogCommand && (future.log.Type == LogConfiguration ==> r.protocolVersion <= 2) && arg1 == nil
//@   at call (*Raft).processLogs$1#1 assert batch_in_order: (forall x int, y int :: 0 <= x && x < y && y < len(batch) ==> batch[x].log.Index < batch[y].log.Index) &&
//@              (forall x int :: 0 <= x && x < len(batch) ==> batch[x] != nil && batch[x].log != nil && lastApplied < batch[x].log.Index && batch[x].log.Index <= index)
//@   at call (*Raft).processLogs$1#2 assert batch_in_order: (forall x int, y int :: 0 <= x && x < y && y < len(batch) ==> batch[x].log.Index < batch[y].log.Index) &&
//@              (forall x int :: 0 <= x && x < len(batch) ==> batch[x] != nil && batch[x].log != nil && lastApplied < batch[x].log.Index && batch[x].log.Index <= index)
//@   loop 1 invariant progress: lastApplied < idx && idx <= index + 1 && r.lastApplied == old(r.lastApplied)
//@   loop 1 invariant seen: forall i uint64 :: lastApplied < i && i < idx && !dom(futures, i) ==> r.logs.has[i]
//@   loop 1 invariant batch_sorted: forall x int, y int :: 0 <= x && x < y && y < len(batch) ==> batch[x].log.Index < batch[y].log.Index
//@   loop 1 invariant batch_nonnil: forall x int :: 0 <= x && x < len(batch) ==> batch[x] != nil && batch[x].log != nil
//@   loop 1 invariant batch_range: forall x int :: 0 <= x && x < len(batch) ==> lastApplied < batch[x].log.Index && batch[x].log.Index < idx
//@   loop 1 invariant batch_fresh: isfresh(batch)
//@   loop 1 invariant futures_ok: forall i uint64 :: dom(futures, i) ==> futures[i] != nil && futures[i].log.Index == i

//@ spec func aeResp(rpc RPC) *AppendEntriesResponse = cast(lastsent(rpc.RespChan).Response, *AppendEntriesResponse)
//@ spec func wfAppend(a *AppendEntriesRequest) bool =
//@   (forall k int :: 0 <= k && k < len(a.Entries) ==> a.Entries[k] != nil && a.Entries[k].Index == a.PrevLogEntry + 1 + k) &&
//@   a.PrevLogEntry + len(a.Entries) < MaxInt63 && a.Term < MaxInt63

//@ spec func tailInv(r *Raft) bool = r.lastLogIndex > 0 ==>
//@   (r.logs.has[r.lastLogIndex] && r.logs.ent[r.lastLogIndex].Term == r.lastLogTerm) ||
//@   (r.lastLogIndex == r.lastSnapshotIndex && r.lastLogTerm == r.lastSnapshotTerm)
//@ spec func noneAboveTail(r *Raft) bool = forall x uint64 :: x > r.lastLogIndex ==> !r.logs.has[x]
//@ spec func somethingDeleted(r *Raft) bool = exists x uint64 :: old(r.logs.has[x]) && !r.logs.has[x]

//@ func (r *Raft) appendEntries
//@   requires nonnil: r != nil && a != nil && r.stable != nil && r.trans != nil && r.logger != nil && r.logs != nil && rpc.RespChan != nil && typeis(r.conf.v, Config)
//@   requires wf: wfAppend(a)
//@   requires term_inv: r.currentTerm == curTermDurable(r)
//@   requires tail: tailInv(r) && noneAboveTail(r)
//@   requires index_range: r.lastLogIndex < MaxInt63 && r.lastSnapshotIndex < MaxInt63
//@   ensures  tail_consistent: aeResp(rpc).Success ==> tailInv(r)
//@   ensures  tail_consistent_after_failed_store: tailInv(r)
//@   ensures  none_above_tail: lastsent(rpc.RespChan).Error == nil ==> noneAboveTail(r)
//@   ensures  responded: sent(rpc.RespChan) == old(sent(rpc.RespChan)) + 1 && typeis(lastsent(rpc.RespChan).Response, *AppendEntriesResponse)
//@   ensures  term_inv: r.currentTerm == curTermDurable(r)
//@   ensures  term_monotone: r.currentTerm >= old(r.currentTerm)
//@   ensures  stale_term_ignored: a.Term < old(r.currentTerm) ==> !aeResp(rpc).Success && r.currentTerm == old(r.currentTerm) && r.state == old(r.state) &&
//@              r.logs.has == old(r.logs.has) && r.logs.ent == old(r.logs.ent) && r.commitIndex == old(r.commitIndex) && r.lastLogIndex == old(r.lastLogIndex)
//@   ensures  term_change_resets_role: r.currentTerm != old(r.currentTerm) ==> r.state == Follower
//@   ensures  success_in_leader_term: aeResp(rpc).Success ==> r.currentTerm == a.Term
//@   ensures  prev_check: aeResp(rpc).Success && a.PrevLogEntry > 0 ==>
//@              (a.PrevLogEntry == old(lastEntryIndex(r)) && a.PrevLogTerm == old(lastEntryTerm(r))) ||
//@              (old(r.logs.has[a.PrevLogEntry]) && old(r.logs.ent[a.PrevLogEntry].Term) == a.PrevLogTerm)
//@   ensures  success_means_match: aeResp(rpc).Success ==> forall k int :: 0 <= k && k < len(a.Entries) ==>
//@              r.logs.has[a.Entries[k].Index] && r.logs.ent[a.Entries[k].Index].Term == a.Entries[k].Term
//@   ensures  nothing_deleted_at_or_below_matching_prefix: forall x uint64, k int ::
//@              old(r.logs.has[x]) && !r.logs.has[x] && 0 <= k && k < len(a.Entries) &&
//@              (forall j int :: 0 <= j && j <= k ==> a.Entries[j].Index <= old(r.lastLogIndex) &&
//@                  old(r.logs.has[a.Entries[j].Index]) && old(r.logs.ent[a.Entries[j].Index].Term) == a.Entries[j].Term)
//@              ==> x > a.Entries[k].Index
//@   ensures  nothing_deleted_below_first_entry: forall x uint64 :: old(r.logs.has[x]) && !r.logs.has[x] ==> len(a.Entries) > 0 && x > a.PrevLogEntry
//@   ensures  no_conflict_no_delete: (forall k int :: 0 <= k && k < len(a.Entries) && a.Entries[k].Index <= old(r.lastLogIndex) ==>
//@                  old(r.logs.has[a.Entries[k].Index]) && old(r.logs.ent[a.Entries[k].Index].Term) == a.Entries[k].Term)
//@              ==> forall x uint64 :: old(r.logs.has[x]) ==> r.logs.has[x]
//@   ensures  kept_entries_unchanged: forall x uint64 :: old(r.logs.has[x]) && r.logs.has[x] &&
//@              (forall k int :: 0 <= k && k < len(a.Entries) ==> a.Entries[k].Index != x) ==> r.logs.ent[x] == old(r.logs.ent[x])
//@   ensures  commit_le_last: r.commitIndex != old(r.commitIndex) ==> r.commitIndex <= lastEntryIndex(r)
//@   ensures  commit_is_min: r.commitIndex != old(r.commitIndex) ==> r.commitIndex == min(a.LeaderCommitIndex, lastEntryIndex(r))
//@   ensures  commit_monotone: old(r.commitIndex) <= old(lastEntryIndex(r)) && (len(a.Entries) == 0 || a.PrevLogEntry + len(a.Entries) >= old(r.commitIndex))
//@              ==> r.commitIndex >= old(r.commitIndex)
//@   ensures  commit_only_on_success: r.commitIndex != old(r.commitIndex) ==> aeResp(rpc).Success
//@   ensures  leader_of_current_term: aeResp(rpc).Success ==> r.leaderID == ServerID(content(a.ID))
//@   at call LogStore.StoreLogs#1 assert latest_configuration_survives_truncation: forall x uint64 :: old(r.logs.has[x]) && !r.logs.has[x] ==>
//@              r.configurations.latestIndex < x || (r.configurations.latestIndex == r.configurations.committedIndex && r.configurations.latestIndex == old(r.configurations.committedIndex))
//@   at call LogStore.StoreLogs#1 assert new_is_suffix: len(newEntries) <= len(a.Entries) && (forall k int :: 0 <= k && k < len(newEntries) ==>
//@              newEntries[k] == a.Entries[len(a.Entries) - len(newEntries) + k])
//@   at call LogStore.StoreLogs#1 assert skipped_match: forall j int :: 0 <= j && j < len(a.Entries) - len(newEntries) ==>
//@              r.logs.has[a.Entries[j].Index] && r.logs.ent[a.Entries[j].Index].Term == a.Entries[j].Term
//@   loop 2 invariant new_stored: forall k int :: 0 <= k && k < len(newEntries) ==>
//@              r.logs.has[newEntries[k].Index] && r.logs.ent[newEntries[k].Index].Term == newEntries[k].Term
//@   loop 2 invariant skipped_still_match: forall j int :: 0 <= j && j < len(a.Entries) - len(newEntries) ==>
//@              r.logs.has[a.Entries[j].Index] && r.logs.ent[a.Entries[j].Index].Term == a.Entries[j].Term
//@   loop 2 invariant suffix: len(newEntries) <= len(a.Entries) && (forall k int :: 0 <= k && k < len(newEntries) ==>
//@              newEntries[k] == a.Entries[len(a.Entries) - len(newEntries) + k])
//@   loop 2 invariant suffix_rev: forall k int :: len(a.Entries) - len(newEntries) <= k && k < len(a.Entries) ==>
//@              a.Entries[k] == newEntries[k - (len(a.Entries) - len(newEntries))]
//@   loop 1 invariant matched_prefix: forall j int :: 0 <= j && j < #i ==> a.Entries[j].Index <= lastLogIdx &&
//@              r.logs.has[a.Entries[j].Index] && r.logs.ent[a.Entries[j].Index].Term == a.Entries[j].Term

//@ func (s *followerReplication) notifyAll
//@   requires nonnil: s != nil && s.notify != nil
//@   requires futures_valid: forall w *verifyFuture :: dom(s.notify, w) ==> w != nil && w.votes < MaxInt63
//@   modifies s.notify, allof("H.verifyFuture.votes"), allof("H.verifyFuture.notifyCh"), allof("CH.sent.PverifyFuture"), allof("CH.last.PverifyFuture")
//@   ensures  cleared: forall w *verifyFuture :: !dom(s.notify, w)
//@   ensures  fresh_set: s.notify != nil && s.notify != old(s.notify)
//@   at call (*verifyFuture).vote#1 assert deregistered_before_vote: forall w *verifyFuture :: !dom(s.notify, w)
//@   loop 1 invariant emptied: (forall w *verifyFuture :: !dom(s.notify, w)) && s.notify != nil && s.notify != old(s.notify) && isfresh(s.notify)
//@   loop 1 invariant bounded: forall j int :: #i <= j && j < #card ==> #key(j) != nil && #key(j).votes < MaxInt63

// ---------------------------------------------------------------------------
// C18: leadership notifications (function-level slivers)

//@ func overrideNotifyBool
//@   requires nonnil: ch != nil
//@   modifies sent(ch), received(ch)
//@   ensures  holds_latest: lastsent(ch) == v
//@   ensures  one_message: sent(ch) == old(sent(ch)) + 1

//@ func (r *Raft) setState
//@   requires nonnil: r != nil
//@   modifies r.leaderAddr, r.leaderID, r.state
//@   ensures  clears_leader: r.leaderAddr == "" && r.leaderID == ""
//@   ensures  state_set: r.state == state
//@   ensures  term_and_log_untouched: r.currentTerm == old(r.currentTerm) && r.lastLogIndex == old(r.lastLogIndex) && r.commitIndex == old(r.commitIndex)

//@ func (r *Raft) setLeader
//@   requires nonnil: r != nil
//@   modifies r.leaderAddr, r.leaderID
//@   ensures  set: r.leaderAddr == leaderAddr && r.leaderID == leaderID
//@   ensures  role_untouched: r.state == old(r.state) && r.currentTerm == old(r.currentTerm)

// ---------------------------------------------------------------------------
// Snapshot stores: ghost durability flag and assumed contracts (trusted base)

//@ ghostvar snapDurable map[uint64]bool
//@ model SnapshotSink { index uint64; term uint64 }

//@ interface SnapshotStore.Create(version, index, term, configuration, configurationIndex, trans)
//@   modifies nothing
//@   fresh result0
//@   ensures  sink: result1 == nil ==> result0 != nil && result0.index == index && result0.term == term

//@ interface SnapshotSink.Close()
//@   modifies snapDurable
//@   ensures  durable: result == nil ==> snapDurable[this.index] && (forall i uint64 :: i != this.index ==> snapDurable[i] == old(snapDurable[i]))
//@   ensures  failed:  result != nil ==> snapDurable == old(snapDurable)

//@ interface SnapshotSink.Cancel()
//@   modifies nothing

//@ interface SnapshotSink.ID()
//@   modifies nothing

//@ interface SnapshotSink.Write(p)
//@   modifies nothing

// ---------------------------------------------------------------------------
// container/list (assumed contracts, trusted base): the in-flight queue. Only its length and the
// membership of an element are modelled (ghost maps); order and contents are not.

//@ ghostvar listLen map[*list.List]int
//@ ghostvar listOf map[*list.Element]*list.List

//@ extern (*container/list.List).Front(l)
//@   modifies nothing
//@   ensures  nil_iff_empty: (result == nil) == (listLen[l] == 0)
//@   ensures  member: result != nil ==> listOf[result] == l
//@   ensures  length_nonnegative: listLen[l] >= 0

//@ extern (*container/list.List).Remove(l, e)
//@   modifies listLen, listOf
//@   ensures  removed: old(listOf[e]) == l ==> listLen[l] == old(listLen[l]) - 1 && listOf[e] == nil
//@   ensures  foreign_element_ignored: old(listOf[e]) != l ==> listLen[l] == old(listLen[l]) && listOf[e] == old(listOf[e])
//@   ensures  other_lists: forall m *list.List :: m != l ==> listLen[m] == old(listLen[m])
//@   ensures  other_elements: forall f *list.Element :: f != e ==> listOf[f] == old(listOf[f])

//@ extern (*container/list.Element).Next(e)
//@   modifies nothing
//@   ensures  detached_has_no_successor: listOf[e] == nil ==> result == nil
//@   ensures  successor_in_same_list: result != nil ==> listOf[result] == listOf[e] && result != e

// ---------------------------------------------------------------------------
// C20: user restore

//@ func (r *Raft) restoreUserSnapshot
//@   requires nonnil: r != nil && meta != nil && r.snapshots != nil && r.logs != nil && r.logger != nil && r.leaderState.inflight != nil
//@   requires index_range: meta.Index < MaxInt63 && r.lastLogIndex < MaxInt63 && r.lastSnapshotIndex < MaxInt63
//@   ensures  refused_if_uncommitted_config: old(r.configurations.committedIndex) != old(r.configurations.latestIndex) ==> result != nil &&
//@              r.lastLogIndex == old(r.lastLogIndex) && r.lastLogTerm == old(r.lastLogTerm) && r.lastApplied == old(r.lastApplied) &&
//@              r.lastSnapshotIndex == old(r.lastSnapshotIndex) && snapDurable == old(snapDurable) && sent(r.fsmMutateCh) == old(sent(r.fsmMutateCh))
//@   ensures  index_above_everything: result == nil ==> r.lastLogIndex == max(meta.Index, max(old(r.lastLogIndex), old(r.lastSnapshotIndex))) + 1 &&
//@              r.lastApplied == r.lastLogIndex && r.lastSnapshotIndex == r.lastLogIndex &&
//@              r.lastLogTerm == r.currentTerm && r.lastSnapshotTerm == r.currentTerm
//@   ensures  durable_before_publish: r.lastSnapshotIndex != old(r.lastSnapshotIndex) ==> snapDurable[r.lastSnapshotIndex]
//@   ensures  durable_before_restore: sent(r.fsmMutateCh) != old(sent(r.fsmMutateCh)) ==> snapDurable[max(meta.Index, max(old(r.lastLogIndex), old(r.lastSnapshotIndex))) + 1]
//@   ensures  error_leaves_cached_tail: result != nil ==> r.lastLogIndex == old(r.lastLogIndex) && r.lastApplied == old(r.lastApplied) && r.lastSnapshotIndex == old(r.lastSnapshotIndex)
//@   ensures  term_untouched: r.currentTerm == old(r.currentTerm) && r.state == old(r.state)
//@   ensures  wholesale_reset_only_on_a_store_that_cannot_hold_gaps: (exists i uint64 :: old(r.logs.has[i]) && !r.logs.has[i]) ==> cast(r.logs, MonotonicLogStore).monotonic
//@   ensures  every_inflight_request_cancelled: result == nil ==> listLen[r.leaderState.inflight] == 0
//@   at call (*deferError).respond#1 assert aborted_by_restore: arg1 == ErrAbortedByRestore
//@   at call (*deferError).Error#1 assert restore_request_has_shutdown_escape: fsm.ShutdownCh == r.shutdownCh && sent(r.fsmMutateCh) == old(sent(r.fsmMutateCh)) + 1
//@   loop 1 invariant untouched: r.lastLogIndex == old(r.lastLogIndex) && r.lastLogTerm == old(r.lastLogTerm) && r.lastApplied == old(r.lastApplied) &&
//@              r.lastSnapshotIndex == old(r.lastSnapshotIndex) && r.lastSnapshotTerm == old(r.lastSnapshotTerm) && r.currentTerm == old(r.currentTerm) && r.state == old(r.state) &&
//@              snapDurable == old(snapDurable) && sent(r.fsmMutateCh) == old(sent(r.fsmMutateCh)) && r.leaderState.inflight != nil &&
//@              r.configurations.committedIndex == old(r.configurations.committedIndex) && r.configurations.latestIndex == old(r.configurations.latestIndex) && r.snapshots == old(r.snapshots) && r.snapshots != nil

// ---------------------------------------------------------------------------
// InstallSnapshot handler (C02 resume point, C11 ordering, C04/C12 handshake)

//@ func startSnapshotRestoreMonitor
//@   trusted progress logging goroutine; touches no raft state
//@   modifies nothing
//@   fresh result

//@ func (m *snapshotRestoreMonitor) StopAndWait
//@   trusted progress logging goroutine; touches no raft state
//@   modifies nothing

//@ spec func isResp(rpc RPC) *InstallSnapshotResponse = cast(lastsent(rpc.RespChan).Response, *InstallSnapshotResponse)

//@ func (r *Raft) installSnapshot
//@   requires nonnil: r != nil && req != nil && r.stable != nil && r.trans != nil && r.logger != nil && r.logs != nil && r.snapshots != nil && rpc.RespChan != nil && typeis(r.conf.v, Config)
//@   requires term_inv: r.currentTerm == curTermDurable(r)
//@   requires index_range: req.LastLogIndex < MaxInt63 && req.Term < MaxInt63
//@   ensures  responded: sent(rpc.RespChan) == old(sent(rpc.RespChan)) + 1 && typeis(lastsent(rpc.RespChan).Response, *InstallSnapshotResponse)
//@   ensures  term_inv: r.currentTerm == curTermDurable(r)
//@   ensures  term_monotone: r.currentTerm >= old(r.currentTerm)
//@   ensures  term_change_resets_role: r.currentTerm != old(r.currentTerm) ==> r.state == Follower
//@   ensures  stale_term_ignored: req.Term < old(r.currentTerm) ==> !isResp(rpc).Success && r.currentTerm == old(r.currentTerm) && r.state == old(r.state) &&
//@              r.logs.has == old(r.logs.has) && r.lastApplied == old(r.lastApplied) && r.lastSnapshotIndex == old(r.lastSnapshotIndex) &&
//@              snapDurable == old(snapDurable) && sent(r.fsmMutateCh) == old(sent(r.fsmMutateCh))
//@   ensures  resume_point: isResp(rpc).Success ==> r.lastApplied == req.LastLogIndex && r.lastSnapshotIndex == req.LastLogIndex && r.lastSnapshotTerm == req.LastLogTerm
//@   ensures  success_in_leader_term: isResp(rpc).Success ==> r.currentTerm == req.Term
//@   ensures  durable_before_publish: r.lastSnapshotIndex != old(r.lastSnapshotIndex) ==> snapDurable[r.lastSnapshotIndex]
//@   ensures  durable_before_restore: sent(r.fsmMutateCh) != old(sent(r.fsmMutateCh)) ==> snapDurable[req.LastLogIndex]
//@   ensures  nothing_removed_without_durable_snapshot: (exists i uint64 :: old(r.logs.has[i]) && !r.logs.has[i]) ==> snapDurable[req.LastLogIndex]
//@   ensures  wholesale_reset_only_on_a_store_that_cannot_hold_gaps: (exists i uint64 :: old(r.logs.has[i]) && !r.logs.has[i] && i > req.LastLogIndex) ==> cast(r.logs, MonotonicLogStore).monotonic
//@   ensures  cached_log_tail_untouched: r.lastLogIndex == old(r.lastLogIndex) && r.lastLogTerm == old(r.lastLogTerm)
//@   ensures  handshake: isResp(rpc).Success ==>
//@              (req.LastLogIndex == lastEntryIndex(r) && req.LastLogTerm == lastEntryTerm(r)) ||
//@              (r.logs.has[req.LastLogIndex] && r.logs.ent[req.LastLogIndex].Term == req.LastLogTerm)
//@   at call (*deferError).Error#1 assert restore_request_has_shutdown_escape: future.ShutdownCh == r.shutdownCh && sent(r.fsmMutateCh) == old(sent(r.fsmMutateCh)) + 1
//@   at call SnapshotStore.Create#1 assert stamped_with_the_snapshots_own_index_and_term: arg1 == req.LastLogIndex && arg2 == req.LastLogTerm && arg4 == reqConfigurationIndex
//@   at call SnapshotSink.Close#1 assert whole_stream_received: n == req.Size
//@   at call io.Copy#1 assert spills_the_request_body_into_the_new_sink: cast(arg0, SnapshotSink) == sink

// ---------------------------------------------------------------------------
// Leader append (C04 leader side, C05 self-match, C03 store-before-ack, C08 index assignment)

//@ func (r *Raft) dispatchLogs
//@   requires nonnil: r != nil && r.logs != nil && r.logger != nil && r.leaderState.commitment != nil && r.leaderState.inflight != nil && typeis(r.conf.v, Config)
//@   requires futures_valid: forall k int :: 0 <= k && k < len(applyLogs) ==> applyLogs[k] != nil
//@   requires futures_distinct: forall a int, b int :: 0 <= a && a < b && b < len(applyLogs) ==> applyLogs[a] != applyLogs[b]
//@   requires index_range: r.lastLogIndex + len(applyLogs) < MaxInt63 && r.lastSnapshotIndex + len(applyLogs) < MaxInt63
//@   modifies r.lastLogIndex, r.lastLogTerm, r.state, r.leaderAddr, r.leaderID, r.logs.has, r.logs.ent, r.logs.first, r.logs.last,
//@            r.leaderState.commitment.commitIndex, r.leaderState.commitment.matchIndexes[*], allof("H.Log."), allof("H.logFuture."), allof("H.list."), allof("CH.sent."), allof("CH.last."), allof("CH.closed"), allof("CH.cap"), allof("E.PLog.")
//@   ensures  appends_at_tail_in_own_term: forall k int :: 0 <= k && k < len(applyLogs) ==>
//@              applyLogs[k].log.Index == old(lastEntryIndex(r)) + 1 + k && applyLogs[k].log.Term == r.currentTerm
//@   ensures  failure_steps_down: len(applyLogs) > 0 && r.lastLogIndex == old(r.lastLogIndex) ==> r.state == Follower
//@   ensures  first_index: len(applyLogs) > 0 ==> applyLogs[0].log.Index == old(lastEntryIndex(r)) + 1 && applyLogs[0].log.Term == r.currentTerm
//@   ensures  first_stored_with_tail: len(applyLogs) > 0 && r.lastLogIndex != old(r.lastLogIndex) ==> r.logs.has[applyLogs[0].log.Index]
//@   ensures  tail_moves_only_after_store: r.lastLogIndex != old(r.lastLogIndex) ==>
//@              r.lastLogIndex == old(lastEntryIndex(r)) + len(applyLogs) && r.lastLogTerm == r.currentTerm &&
//@              (forall k int :: 0 <= k && k < len(applyLogs) ==> r.logs.has[applyLogs[k].log.Index] && r.logs.ent[applyLogs[k].log.Index].Term == r.currentTerm)
//@   ensures  nothing_deleted: forall x uint64 :: old(r.logs.has[x]) ==> r.logs.has[x]
//@   ensures  term_untouched: r.currentTerm == old(r.currentTerm)
//@   at call (*commitment).match#1 assert stored_first: arg2 == old(lastEntryIndex(r)) + len(applyLogs) &&
//@              (forall k int :: 0 <= k && k < len(applyLogs) ==> r.logs.has[applyLogs[k].log.Index])
//@   loop 1 invariant assigned: lastIndex == old(lastEntryIndex(r)) + #i && len(logs) == len(applyLogs) && isfresh(logs) &&
//@              (forall j int :: 0 <= j && j < #i ==> logs[j] == addr(applyLogs[j].log) && applyLogs[j].log.Index == old(lastEntryIndex(r)) + 1 + j && applyLogs[j].log.Term == term)
//@   loop 1 invariant state: r.lastLogIndex == old(r.lastLogIndex) && r.lastLogTerm == old(r.lastLogTerm) && r.currentTerm == old(r.currentTerm) && term == r.currentTerm &&
//@              r.logs == old(r.logs) && r.logs.has == old(r.logs.has) && r.logs.ent == old(r.logs.ent) && r.leaderState.commitment == old(r.leaderState.commitment) &&
//@              r.leaderState.commitment.matchIndexes == old(r.leaderState.commitment.matchIndexes) && r.localID == old(r.localID) &&
//@              (forall id ServerID :: r.leaderState.commitment.matchIndexes[id] == old(r.leaderState.commitment.matchIndexes[id]))

// ---------------------------------------------------------------------------
// Heartbeats (sender-side obligation behind the follower's commit rule; C02/C05/C09)

//@ ghostvar rpcFailures int
//@ interface Transport.AppendEntries(id, target, args, resp)
//@   requires nonnil: args != nil && resp != nil
//@   modifies *resp, rpcFailures
//@   ensures  counted: (result != nil) == (rpcFailures == old(rpcFailures) + 1) && (result == nil) == (rpcFailures == old(rpcFailures))

//@ func cappedExponentialBackoff
//@   trusted pure arithmetic on durations
//@   modifies nothing

//@ func (r *Raft) heartbeat
//@   requires nonnil: r != nil && s != nil && r.trans != nil && r.logger != nil && typeis(r.conf.v, Config) && s.notify != nil
//@   requires futures_valid: forall w *verifyFuture :: dom(s.notify, w) ==> w != nil && w.votes < MaxInt63
//@   at call Transport.AppendEntries#1 assert heartbeat_carries_no_commit_index: arg2.PrevLogEntry == 0 && arg2.PrevLogTerm == 0 &&
//@              arg2.LeaderCommitIndex == 0 && len(arg2.Entries) == 0 && arg2.Term == s.currentTerm
//@   loop 1 invariant notify_valid: s.notify != nil && (forall w *verifyFuture :: dom(s.notify, w) ==> w != nil && w.votes < MaxInt63)
//@   at call (*verifyFuture).vote#* assert votes_are_cast_through_notifyAll_only: false
//@   at call (*followerReplication).notifyAll#1 assert acknowledges_with_the_followers_answer: arg1 == resp.Success
//@   loop 1 step acknowledges_only_after_a_successful_exchange: s.notify != old(s.notify) ==> rpcFailures == old(rpcFailures)

// ---------------------------------------------------------------------------
// C10: start-up recovery (function-level slivers)

//@ model CommitTrackingLogStore { staged uint64 }

//@ interface CommitTrackingLogStore.GetCommitIndex()
//@   modifies nothing
//@   ensures  value: result1 == nil ==> result0 == this.staged

//@ spec func stagedCommit(r *Raft) uint64 = cast(r.logs, CommitTrackingLogStore).staged

//@ func (c *Config) getOrCreateLogger
//@   trusted returns the configured logger or creates one (hclog); never nil
//@   modifies nothing
//@   ensures  nonnil: result != nil

//@ func (r *Raft) restoreFromCommittedLogs
//@   requires nonnil: r != nil && r.logs != nil && r.logger != nil && typeis(r.conf.v, Config)
//@   requires fresh_start: r.commitIndex == 0
//@   requires index_range: r.logs.last < MaxInt63
//@   modifies r.commitIndex, r.lastApplied, sent(r.fsmMutateCh), allof("H.logFuture."), allof("CH.sent.error"), allof("CH.last.error"), allof("CH.closed"), allof("CH.sent.interface"), allof("CH.last.interface"), received(r.shutdownCh)
//@   ensures  disabled_is_noop: !r.RestoreCommittedLogs ==> result == nil && r.commitIndex == old(r.commitIndex) && r.lastApplied == old(r.lastApplied)
//@   ensures  commit_is_min: result == nil && r.RestoreCommittedLogs ==> r.commitIndex == min(stagedCommit(r), r.logs.last)
//@   ensures  applied_up_to_commit: result == nil && r.RestoreCommittedLogs ==> r.lastApplied == max(old(r.lastApplied), r.commitIndex)
//@   ensures  error_changes_nothing: result != nil ==> r.commitIndex == old(r.commitIndex) && r.lastApplied == old(r.lastApplied)
//@   ensures  log_untouched: r.logs.has == old(r.logs.has) && r.logs.ent == old(r.logs.ent)

//@ spec func durableTerm(s StableStore) uint64 = ite(s.hasu[content(keyCurrentTerm)], s.u64[content(keyCurrentTerm)], 0)

//@ func NewRaft
//@   requires nonnil: conf != nil && fsm != nil && logs != nil && stable != nil && snaps != nil && trans != nil
//@   requires index_range: logs.last < MaxInt63
//@   ensures  term_reloaded: result1 == nil ==> result0 != nil && result0.currentTerm == durableTerm(stable)
//@   ensures  lastlog_is_store_tail: result1 == nil && logs.last > 0 ==> result0.lastLogIndex == logs.last && result0.lastLogTerm == logs.ent[logs.last].Term
//@   ensures  empty_log_tail: result1 == nil && logs.last == 0 ==> result0.lastLogIndex == 0
//@   ensures  starts_as_follower: result1 == nil ==> result0.state == Follower && result0.logs == logs && result0.stable == stable
//@   loop 1 entry config_scan_covers_log: snapshotIndex < MaxUint64 ==> index == snapshotIndex + 1
//@   at call Transport.SetHeartbeatHandler#1 assert start_up_queue_fits: sent(r.fsmMutateCh) <= cap(r.fsmMutateCh) && cap(r.fsmMutateCh) == 128

// ---------------------------------------------------------------------------
// C11: takeSnapshot ordering

//@ interface FSMSnapshot.Persist(sink)
//@   modifies nothing

//@ interface FSMSnapshot.Release()
//@   modifies nothing

//@ func (r *Raft) takeSnapshot
//@   requires nonnil: r != nil && r.snapshots != nil && r.logs != nil && r.logger != nil && r.trans != nil && typeis(r.conf.v, Config)
//@   ensures  durable_before_publish: r.lastSnapshotIndex != old(r.lastSnapshotIndex) ==> snapDurable[r.lastSnapshotIndex]
//@   ensures  nothing_removed_without_durable_snapshot: (exists i uint64 :: old(r.logs.has[i]) && !r.logs.has[i]) ==> snapDurable[r.lastSnapshotIndex]
//@   ensures  removed_only_at_or_below_snapshot: forall i uint64 :: old(r.logs.has[i]) && !r.logs.has[i] ==> i <= r.lastSnapshotIndex
//@   ensures  log_tail_untouched: r.lastLogIndex == old(r.lastLogIndex) && r.lastLogTerm == old(r.lastLogTerm) && r.currentTerm == old(r.currentTerm)
//@   at call (*deferError).Error#1 assert fsm_snapshot_awaited_first: sent(r.fsmSnapshotCh) == old(sent(r.fsmSnapshotCh)) + 1 && sent(r.configurationsCh) == old(sent(r.configurationsCh))
//@   at call (*deferError).Error#2 assert config_request_has_shutdown_escape: configReq.ShutdownCh == r.shutdownCh && sent(r.configurationsCh) == old(sent(r.configurationsCh)) + 1 && lastsent(r.configurationsCh) == configReq
//@   at call SnapshotStore.Create#1 assert stamped_with_snapshot_request: arg1 == snapReq.index && arg2 == snapReq.term && arg4 == committedIndex && snapReq.index >= committedIndex

// ---------------------------------------------------------------------------
// C15: FileSnapshotStore (ordering / retention slivers; file-system effects are ghost counters set by
// assumed contracts of the os functions)

//@ ghostvar fileSynced map[*os.File]bool
//@ ghostvar fsyncs int
//@ ghostvar renames int
//@ ghostvar removals int

//@ extern (*os.File).Sync(f)
//@   modifies fileSynced, fsyncs
//@   ensures  ok: result == nil ==> fileSynced[f] && fsyncs == old(fsyncs) + 1 && (forall g *os.File :: g != f ==> fileSynced[g] == old(fileSynced[g]))
//@   ensures  failed: result != nil ==> fileSynced == old(fileSynced) && fsyncs == old(fsyncs)

//@ extern os.Rename(oldpath, newpath)
//@   modifies renames
//@   ensures  counted: renames == old(renames) + 1

//@ extern os.RemoveAll(path)
//@   modifies removals
//@   ensures  counted: removals == old(removals) + 1

//@ ghostvar jsonEncodeErrors int
//@ extern (*encoding/json.Encoder).Encode(e, v)
//@   modifies jsonEncodeErrors
//@   ensures  counted: (result != nil) == (jsonEncodeErrors == old(jsonEncodeErrors) + 1) && (result == nil) == (jsonEncodeErrors == old(jsonEncodeErrors))

//@ spec func metaLess(a *fileSnapshotMeta, b *fileSnapshotMeta) bool =
//@   a.Term < b.Term || (a.Term == b.Term && (a.Index < b.Index || (a.Index == b.Index && a.ID < b.ID)))

//@ func (s snapMetaSlice) Less
//@   requires inrange: 0 <= i && i < len(s) && 0 <= j && j < len(s) && s[i] != nil && s[j] != nil
//@   modifies nothing
//@   safe
//@   ensures  lexicographic: result == metaLess(s[i], s[j])

//@ lemma metaLess_strict_total_order(a *fileSnapshotMeta, b *fileSnapshotMeta, c *fileSnapshotMeta)
//@   requires a != nil && b != nil && c != nil
//@   ensures  irreflexive: !metaLess(a, a)
//@   ensures  asymmetric: metaLess(a, b) ==> !metaLess(b, a)
//@   ensures  transitive: metaLess(a, b) && metaLess(b, c) ==> metaLess(a, c)
//@   ensures  total: (a.Term != b.Term || a.Index != b.Index || a.ID != b.ID) ==> metaLess(a, b) || metaLess(b, a)

// the directory scan: only directories whose name does not end in the temporary suffix are read, only
// readable metadata of a supported version is kept, and the result is ordered newest first (assumed
// contract of sort.Sort for snapMetaSlice: a permutation ordered by metaLess, against which Less is verified)
//@ sortorder snapMetaSlice metaLess
//@ uf strHasSuffix(string, string) bool
//@ extern strings.HasSuffix(s, suffix)
//@   modifies nothing
//@   ensures  spec: result == strHasSuffix(s, suffix)

//@ func (f *FileSnapshotStore) getSnapshots
//@   requires nonnil: f != nil && f.logger != nil
//@   modifies jsonErrors, boxes(), allof("H.fileSnapshotMeta."), allof("H.SnapshotMeta."), allof("E.uint8."), allof("E.Server."), allof("H.os.File.")
//@   ensures  nonnil: result1 == nil ==> forall k int :: 0 <= k && k < len(result0) ==> result0[k] != nil
//@   ensures  newest_first: result1 == nil ==> forall a int, b int :: 0 <= a && a < b && b < len(result0) ==> !metaLess(result0[a], result0[b])
//@   ensures  nothing_removed: removals == old(removals) && renames == old(renames)
//@   at call (*FileSnapshotStore).readMeta#1 assert temporary_directories_are_skipped: !strHasSuffix(arg1, tmpSuffix) && arg1 == dirName
//@   at call strings.HasSuffix#1 assert tests_the_directory_name: arg0 == dirName && arg1 == tmpSuffix
//@   loop 1 invariant kept_entries_are_readable: forall k int :: 0 <= k && k < len(snapMeta) ==> snapMeta[k] != nil
//@   loop 1 invariant counters: removals == old(removals) && renames == old(renames)

//@ func (f *FileSnapshotStore) List
//@   requires nonnil: f != nil && f.logger != nil
//@   requires retain_positive: f.retain >= 1
//@   ensures  limited: result1 == nil ==> len(result0) <= f.retain
//@   ensures  nothing_removed: removals == old(removals) && renames == old(renames)
//@   loop 1 invariant prefix: len(snapMeta) == #i && len(snapMeta) < f.retain && removals == old(removals) && renames == old(renames)

//@ func (f *FileSnapshotStore) ReapSnapshots
//@   requires nonnil: f != nil && f.logger != nil
//@   requires retain_positive: f.retain >= 1
//@   at call os.RemoveAll#1 assert never_the_newest: i >= f.retain && i >= 1 && i < len(snapshots)
//@   ensures  keeps_when_few: result == nil ==> true
//@   loop 1 invariant from_retain: i >= f.retain && f.retain >= 1

//@ func (s *FileSnapshotSink) finalize
//@   requires nonnil: s != nil && s.buffered != nil && s.stateFile != nil && s.stateHash != nil
//@   ensures  state_synced: result == nil && !s.noSync ==> fileSynced[s.stateFile] && fsyncs == old(fsyncs) + 1
//@   ensures  failed_flush_is_reported: result == nil ==> ioErrors == old(ioErrors)
//@   ensures  nothing_visible: renames == old(renames)

//@ func (s *FileSnapshotSink) writeMeta
//@   requires nonnil: s != nil
//@   ensures  meta_synced: result == nil && !s.noSync ==> fsyncs == old(fsyncs) + 1
//@   ensures  failed_encode_or_flush_is_reported: result == nil ==> ioErrors == old(ioErrors) && jsonEncodeErrors == old(jsonEncodeErrors)
//@   ensures  state_sync_kept: forall g *os.File :: old(fileSynced[g]) ==> fileSynced[g]
//@   ensures  nothing_visible: renames == old(renames)

//@ func (s *FileSnapshotSink) Close
//@   requires nonnil: s != nil && s.logger != nil && s.store != nil && s.store.logger != nil && s.store.retain >= 1 && s.buffered != nil && s.stateFile != nil && s.stateHash != nil
//@   at call os.Rename#1 assert durable_before_visible: s.noSync || (fileSynced[s.stateFile] && fsyncs >= old(fsyncs) + 2)
//@   at call (*FileSnapshotStore).ReapSnapshots#1 assert new_snapshot_durable_before_reaping: renames == old(renames) + 1 && (s.noSync || fsyncs >= old(fsyncs) + 3)
//@   ensures  idempotent: old(s.closed) ==> result == nil && renames == old(renames) && fsyncs == old(fsyncs)
//@   ensures  nil_means_durable_and_visible: result == nil && !old(s.closed) ==> renames == old(renames) + 1 && (s.noSync || fsyncs >= old(fsyncs) + 3)
//@   ensures  at_most_one_rename: renames <= old(renames) + 1
//@   ensures  nil_means_nothing_failed_to_reach_the_files: result == nil && !old(s.closed) ==> ioErrors == old(ioErrors) && jsonEncodeErrors == old(jsonEncodeErrors)

//@ func (s *FileSnapshotSink) Cancel
//@   requires nonnil: s != nil && s.logger != nil && s.buffered != nil && s.stateFile != nil && s.stateHash != nil
//@   ensures  never_visible: renames == old(renames)
//@   ensures  closed: s.closed


// ---------------------------------------------------------------------------
// C07: the leader applies a new configuration only together with its log entry

//@ func EncodeConfiguration
//@   trusted msgpack encoding (third-party codec); writes nothing
//@   modifies nothing

//@ func (r *Raft) startStopReplication
//@   requires nonnil: r != nil && r.logger != nil && r.leaderState.replState != nil
//@   requires index_range: r.lastLogIndex < MaxInt63 && r.lastSnapshotIndex < MaxInt63
//@   modifies r.leaderState.replState[*], allof("H.followerReplication.")
//@   at call (*raftState).goFunc#1 assert no_routine_for_itself: server.ID != r.localID
//@   at call (*raftState).goFunc#1 assert new_routine_starts_after_the_leaders_tail_in_its_term: s.nextIndex == lastIdx + 1 && lastIdx == lastEntryIndex(r) && s.currentTerm == r.currentTerm && s.peer == server
//@   at call (*raftState).goFunc#1 assert new_routine_reports_to_this_leaders_commitment: s.commitment == r.leaderState.commitment && s.stepDown == r.leaderState.stepDown && isfresh(s) && s.stopCh != nil && s.triggerCh != nil
//@   at call (*Raft).observe#2 assert routine_stopped_only_for_a_server_outside_the_latest_configuration: !inConfig[serverID]

//@ func (r *Raft) appendConfigurationEntry
//@   requires nonnil: r != nil && future != nil && r.logs != nil && r.logger != nil && r.trans != nil && r.leaderState.commitment != nil && r.leaderState.inflight != nil && r.leaderState.replState != nil && typeis(r.conf.v, Config)
//@   requires index_range: r.lastLogIndex + 1 < MaxInt63 && r.lastSnapshotIndex + 1 < MaxInt63
//@   requires config_in_log: r.configurations.latestIndex <= lastEntryIndex(r)
//@   requires is_leader: r.state == Leader
//@   ensures  latest_only_if_stored: r.configurations.latestIndex != old(r.configurations.latestIndex) ==> r.logs.has[r.configurations.latestIndex]
//@   ensures  rejected_change_has_no_effect: r.configurations.latestIndex == old(r.configurations.latestIndex) ==> r.configurations.latest == old(r.configurations.latest)
//@   ensures  committed_untouched: r.configurations.committedIndex == old(r.configurations.committedIndex) && r.configurations.committed == old(r.configurations.committed)
//@   ensures  appended_at_tail: r.configurations.latestIndex != old(r.configurations.latestIndex) ==> r.configurations.latestIndex == old(lastEntryIndex(r)) + 1

// ---------------------------------------------------------------------------
// C04 / C01: the leader's request builder (what wfAppend assumes on the receiving side is proved here)

//@ func (r *Raft) setPreviousLog
//@   requires nonnil: r != nil && req != nil && r.logs != nil && r.logger != nil
//@   requires next_positive: nextIndex >= 1
//@   modifies req.PrevLogEntry, req.PrevLogTerm
//@   ensures  first: result == nil && nextIndex == 1 ==> req.PrevLogEntry == 0 && req.PrevLogTerm == 0
//@   ensures  snapshot_boundary: result == nil && nextIndex != 1 && nextIndex - 1 == r.lastSnapshotIndex ==>
//@              req.PrevLogEntry == r.lastSnapshotIndex && req.PrevLogTerm == r.lastSnapshotTerm
//@   ensures  from_log: result == nil && nextIndex != 1 && nextIndex - 1 != r.lastSnapshotIndex ==>
//@              r.logs.has[nextIndex - 1] && req.PrevLogEntry == nextIndex - 1 && req.PrevLogTerm == r.logs.ent[nextIndex - 1].Term
//@   ensures  prev_is_next_minus_one: result == nil ==> req.PrevLogEntry == nextIndex - 1

//@ func (r *Raft) setNewLogs
//@   requires nonnil: r != nil && req != nil && r.logs != nil && r.logger != nil && typeis(r.conf.v, Config)
//@   requires range: nextIndex >= 1 && lastIndex < MaxInt63 && nextIndex < MaxInt63 && cfg(r).MaxAppendEntries >= 1 && cfg(r).MaxAppendEntries < 1000000
//@   modifies req.Entries
//@   ensures  contiguous_from_next: result == nil ==> forall k int :: 0 <= k && k < len(req.Entries) ==>
//@              req.Entries[k] != nil && req.Entries[k].Index == nextIndex + k &&
//@              r.logs.has[nextIndex + k] && req.Entries[k].Term == r.logs.ent[nextIndex + k].Term
//@   ensures  up_to_last: result == nil ==> forall k int :: 0 <= k && k < len(req.Entries) ==> nextIndex + k <= lastIndex
//@   ensures  batch_bound: result == nil ==> len(req.Entries) <= cfg(r).MaxAppendEntries
//@   ensures  fresh_entries: result == nil ==> isfresh(req.Entries) || len(req.Entries) == 0
//@   loop 1 invariant built: len(req.Entries) == i - nextIndex && i >= nextIndex && isfresh(req.Entries) &&
//@              (forall k int :: 0 <= k && k < len(req.Entries) ==> req.Entries[k] != nil && isfresh(req.Entries[k]) && req.Entries[k].Index == nextIndex + k && nextIndex + k <= maxIndex &&
//@                  r.logs.has[nextIndex + k] && req.Entries[k].Term == r.logs.ent[nextIndex + k].Term)
//@   loop 1 invariant store_untouched: r.logs.has == old(r.logs.has) && r.logs.ent == old(r.logs.ent) && r.logs == old(r.logs) && cap(req.Entries) >= 0

//@ func (r *Raft) setupAppendEntries
//@   requires nonnil: r != nil && s != nil && req != nil && r.logs != nil && r.logger != nil && r.trans != nil && typeis(r.conf.v, Config)
//@   requires range: nextIndex >= 1 && lastIndex < MaxInt63 && nextIndex < MaxInt63 && cfg(r).MaxAppendEntries >= 1 && cfg(r).MaxAppendEntries < 1000000 && s.currentTerm < MaxInt63
//@   ensures  stamped_with_election_term: result == nil ==> req.Term == s.currentTerm
//@   ensures  commit_index_is_leaders: result == nil ==> req.LeaderCommitIndex == r.commitIndex
//@   ensures  well_formed: result == nil ==> wfAppend(req)
//@   ensures  prev_is_next_minus_one: result == nil ==> req.PrevLogEntry == nextIndex - 1
//@   ensures  log_untouched: r.logs.has == old(r.logs.has) && r.logs.ent == old(r.logs.ent) && r.currentTerm == old(r.currentTerm)

// ---------------------------------------------------------------------------
// leaderLoop: local call-site obligations only (the select loop carries no invariant; inferred
// frame candidates are switched off; preconditions of the handlers it dispatches to are not claimed here)

//@ func (r *Raft) leaderLoop
//@   requires nonnil: r != nil
//@   modifies allof("")
//@   noinference
//@   localonly
//@   at call (*Raft).restoreUserSnapshot#1 assert refused_during_transfer: r.leaderState.leadershipTransferInProgress != 1
//@   at call (*Raft).appendConfigurationEntry#1 assert gate: r.configurations.latestIndex == r.configurations.committedIndex &&
//@              r.commitIndex >= r.leaderState.commitment.startIndex && r.leaderState.leadershipTransferInProgress != 1
//@   at call (*Raft).dispatchLogs#1 assert not_while_transferring_or_stepping_down: r.leaderState.leadershipTransferInProgress != 1 && !stepDown
//@   at call time.After#2 assert lease_check_interval_floor: arg0 >= minCheckInterval
//@   at call (*deferError).respond#3 assert verify_succeeds_only_with_its_quorum: arg1 == nil && v.quorumSize != 0 && v.votes >= v.quorumSize
//@   at call (*deferError).respond#2 assert verify_fails_as_not_leader: arg1 == ErrNotLeader && v.votes < v.quorumSize && r.state == Follower
//@   at call (*deferError).respond#10 assert apply_refused_during_transfer: arg1 == ErrLeadershipTransferInProgress && r.leaderState.leadershipTransferInProgress == 1
//@   at call (*deferError).respond#11 assert apply_refused_while_stepping_down: arg1 == ErrNotLeader && stepDown
//@   loop 1 step restore_answered: received(r.userRestoreCh) != old(received(r.userRestoreCh)) ==> answered(lastreceived(r.userRestoreCh).deferError)
//@   loop 1 step configurations_answered: received(r.configurationsCh) != old(received(r.configurationsCh)) ==> answered(lastreceived(r.configurationsCh).deferError)
//@   loop 1 step bootstrap_answered: received(r.bootstrapCh) != old(received(r.bootstrapCh)) ==> answered(lastreceived(r.bootstrapCh).deferError)
//@   loop 1 step lease_timer_rearmed_after_it_fired: received(prev(lease)) != old(received(prev(lease))) ==> lease != prev(lease) && lease != nil

// time.After hands out a new channel on every call (assumed, trusted base)
//@ extern time.After(d)
//@   modifies nothing
//@   fresh result0
//@   ensures  new_timer: result != nil

// ---------------------------------------------------------------------------
// C17 (sliver): a future that an API call leaves on a queue carries the shutdown escape, so that a
// caller blocked in Error() is released by Shutdown even if no run loop ever serves the queue again.

//@ func (r *Raft) VerifyLeader
//@   requires nonnil: r != nil && r.verifyCh != nil && r.shutdownCh != nil
//@   ensures  queued_future_has_shutdown_escape: typeis(result, *verifyFuture) ==> cast(result, *verifyFuture).ShutdownCh == r.shutdownCh
//@   ensures  queued_or_refused: typeis(result, *verifyFuture) || (typeis(result, errorFuture) && cast(result, errorFuture).err == ErrRaftShutdown)
//@   ensures  queued_means_sent: typeis(result, *verifyFuture) ==> sent(r.verifyCh) == old(sent(r.verifyCh)) + 1 && lastsent(r.verifyCh) == cast(result, *verifyFuture) && isfresh(cast(result, *verifyFuture)) && cast(result, *verifyFuture).errCh != nil
//@   ensures  refused_means_not_sent: !typeis(result, *verifyFuture) ==> sent(r.verifyCh) == old(sent(r.verifyCh))

//@ func (r *Raft) ApplyLog
//@   requires nonnil: r != nil && r.applyCh != nil && r.shutdownCh != nil
//@   ensures  queued_future_has_shutdown_escape: typeis(result, *logFuture) ==> cast(result, *logFuture).ShutdownCh == r.shutdownCh
//@   ensures  queued_or_refused: typeis(result, *logFuture) || (typeis(result, errorFuture) && (cast(result, errorFuture).err == ErrRaftShutdown || cast(result, errorFuture).err == ErrEnqueueTimeout))
//@   ensures  timeout_only_if_requested: typeis(result, errorFuture) && cast(result, errorFuture).err == ErrEnqueueTimeout ==> timeout > 0
//@   ensures  queued_means_sent: typeis(result, *logFuture) ==> sent(r.applyCh) == old(sent(r.applyCh)) + 1 && lastsent(r.applyCh) == cast(result, *logFuture) && isfresh(cast(result, *logFuture)) && cast(result, *logFuture).errCh != nil
//@   ensures  refused_means_not_sent: !typeis(result, *logFuture) ==> sent(r.applyCh) == old(sent(r.applyCh))
//@   ensures  carries_the_callers_command: typeis(result, *logFuture) ==> cast(result, *logFuture).log.Data == log.Data && cast(result, *logFuture).log.Extensions == log.Extensions
//@   ensures  command_entry: typeis(result, *logFuture) ==> cast(result, *logFuture).log.Type == LogCommand && cast(result, *logFuture).log.Index == 0 && cast(result, *logFuture).log.Term == 0

//@ func (r *Raft) Barrier
//@   requires nonnil: r != nil && r.applyCh != nil && r.shutdownCh != nil
//@   ensures  queued_future_has_shutdown_escape: typeis(result, *logFuture) ==> cast(result, *logFuture).ShutdownCh == r.shutdownCh
//@   ensures  queued_or_refused: typeis(result, *logFuture) || (typeis(result, errorFuture) && (cast(result, errorFuture).err == ErrRaftShutdown || cast(result, errorFuture).err == ErrEnqueueTimeout))
//@   ensures  queued_means_sent: typeis(result, *logFuture) ==> sent(r.applyCh) == old(sent(r.applyCh)) + 1 && lastsent(r.applyCh) == cast(result, *logFuture) && isfresh(cast(result, *logFuture)) && cast(result, *logFuture).errCh != nil
//@   ensures  refused_means_not_sent: !typeis(result, *logFuture) ==> sent(r.applyCh) == old(sent(r.applyCh))
//@   ensures  barrier_entry: typeis(result, *logFuture) ==> cast(result, *logFuture).log.Type == LogBarrier

//@ func (r *Raft) initiateLeadershipTransfer
//@   requires nonnil: r != nil && r.leadershipTransferCh != nil && r.shutdownCh != nil && r.logger != nil
//@   ensures  queued_future_has_shutdown_escape: typeis(result, *leadershipTransferFuture) && sent(r.leadershipTransferCh) != old(sent(r.leadershipTransferCh)) ==> cast(result, *leadershipTransferFuture).ShutdownCh == r.shutdownCh
//@   ensures  self_transfer_refused_without_queueing: id != nil && *id == r.localID ==> sent(r.leadershipTransferCh) == old(sent(r.leadershipTransferCh)) && typeis(result, *leadershipTransferFuture) && cast(result, *leadershipTransferFuture).responded
//@   ensures  queued_means_sent: sent(r.leadershipTransferCh) != old(sent(r.leadershipTransferCh)) ==> typeis(result, *leadershipTransferFuture) && lastsent(r.leadershipTransferCh) == cast(result, *leadershipTransferFuture) && cast(result, *leadershipTransferFuture).errCh != nil

// ---------------------------------------------------------------------------
// Non-leader run loops (C17: every queue is answered in every state; C08: a non-leader answers
// ErrNotLeader without dispatching; C01/C14: the candidate's tally and pre-vote gating).
// The loops carry only the invariants written here (no inferred frame candidates).

//@ spec func answered(d deferError) bool = d.responded || d.errCh == nil

//@ func (r *Raft) runFollower
//@   requires nonnil: r != nil && r.logger != nil && typeis(r.conf.v, Config)
//@   noinference
//@   localonly
//@   loop 1 step apply_answered: received(r.applyCh) != old(received(r.applyCh)) ==> answered(lastreceived(r.applyCh).deferError)
//@   loop 1 step verify_answered: received(r.verifyCh) != old(received(r.verifyCh)) ==> answered(lastreceived(r.verifyCh).deferError)
//@   loop 1 step config_change_answered: received(r.configurationChangeCh) != old(received(r.configurationChangeCh)) ==> answered(lastreceived(r.configurationChangeCh).deferError)
//@   loop 1 step restore_answered: received(r.userRestoreCh) != old(received(r.userRestoreCh)) ==> answered(lastreceived(r.userRestoreCh).deferError)
//@   loop 1 step transfer_answered: received(r.leadershipTransferCh) != old(received(r.leadershipTransferCh)) ==> answered(lastreceived(r.leadershipTransferCh).deferError)
//@   loop 1 step configurations_answered: received(r.configurationsCh) != old(received(r.configurationsCh)) ==> answered(lastreceived(r.configurationsCh).deferError)
//@   loop 1 step bootstrap_answered: received(r.bootstrapCh) != old(received(r.bootstrapCh)) ==> answered(lastreceived(r.bootstrapCh).deferError)
//@   loop 1 step one_request_per_iteration: received(r.applyCh) <= old(received(r.applyCh)) + 1 && received(r.verifyCh) <= old(received(r.verifyCh)) + 1
//@   at call (*deferError).respond#1 assert not_leader_answer: arg1 == ErrNotLeader
//@   at call (*deferError).respond#2 assert not_leader_answer: arg1 == ErrNotLeader
//@   at call (*deferError).respond#3 assert not_leader_answer: arg1 == ErrNotLeader
//@   at call (*deferError).respond#4 assert not_leader_answer: arg1 == ErrNotLeader
//@   at call (*deferError).respond#5 assert not_leader_answer: arg1 == ErrNotLeader

//@ func (r *Raft) runCandidate
//@   requires nonnil: r != nil && r.logger != nil && typeis(r.conf.v, Config)
//@   noinference
//@   localonly
//@   loop 1 step apply_answered: received(r.applyCh) != old(received(r.applyCh)) ==> answered(lastreceived(r.applyCh).deferError)
//@   loop 1 step verify_answered: received(r.verifyCh) != old(received(r.verifyCh)) ==> answered(lastreceived(r.verifyCh).deferError)
//@   loop 1 step config_change_answered: received(r.configurationChangeCh) != old(received(r.configurationChangeCh)) ==> answered(lastreceived(r.configurationChangeCh).deferError)
//@   loop 1 step restore_answered: received(r.userRestoreCh) != old(received(r.userRestoreCh)) ==> answered(lastreceived(r.userRestoreCh).deferError)
//@   loop 1 step transfer_answered: received(r.leadershipTransferCh) != old(received(r.leadershipTransferCh)) ==> answered(lastreceived(r.leadershipTransferCh).deferError)
//@   loop 1 step configurations_answered: received(r.configurationsCh) != old(received(r.configurationsCh)) ==> answered(lastreceived(r.configurationsCh).deferError)
//@   loop 1 step bootstrap_answered: received(r.bootstrapCh) != old(received(r.bootstrapCh)) ==> answered(lastreceived(r.bootstrapCh).deferError)
//@   ensures  transfer_privilege_reset: r.candidateFromLeadershipTransfer.v == 0
//@   loop 1 invariant tally_below_quorum: 0 <= grantedVotes && grantedVotes < votesNeeded && 0 <= preVoteGrantedVotes && preVoteGrantedVotes < votesNeeded
//@   loop 1 step tally_monotone: prev(grantedVotes) <= grantedVotes && grantedVotes <= prev(grantedVotes) + 1
//@   loop 1 step tally_counts_a_received_vote: grantedVotes == prev(grantedVotes) + 1 ==> received(prev(voteCh)) == old(received(prev(voteCh))) + 1
//@   loop 1 step tally_counts_grants_only: grantedVotes == prev(grantedVotes) + 1 ==> lastreceived(prev(voteCh)).Granted
//@   loop 1 step tally_counts_current_term_only: grantedVotes == prev(grantedVotes) + 1 ==> lastreceived(prev(voteCh)).Term <= r.currentTerm
//@   at call (*deferError).respond#1 assert not_leader_answer: arg1 == ErrNotLeader
//@   at call (*deferError).respond#2 assert not_leader_answer: arg1 == ErrNotLeader
//@   at call (*deferError).respond#3 assert not_leader_answer: arg1 == ErrNotLeader
//@   at call (*deferError).respond#4 assert not_leader_answer: arg1 == ErrNotLeader
//@   at call (*deferError).respond#5 assert not_leader_answer: arg1 == ErrNotLeader
//@   at call (*deferError).respond#7 assert cannot_bootstrap: arg1 == ErrCantBootstrap
//@   at call (*Raft).electSelf#1 assert prevote_skipped_only_when_disabled_or_transfer: r.preVoteDisabled || r.candidateFromLeadershipTransfer.v != 0
//@   at call (*Raft).electSelf#2 assert term_bumped_only_after_prevote_quorum: preVote.Granted && prev(preVoteGrantedVotes) + 1 >= votesNeeded
//@   at call (*Raft).setState#3 assert leader_only_with_quorum_of_grants: grantedVotes >= votesNeeded

// ---------------------------------------------------------------------------
// C10: start-up restore from the snapshot store. tryRestoreSingleSnapshot opens the snapshot and feeds
// it to the user's FSM (trusted: touches no raft state); restoreSnapshot must record as resume point
// exactly the snapshot it restored.

//@ func (r *Raft) tryRestoreSingleSnapshot
//@   trusted opens one snapshot and restores the user FSM from it; reads configuration and logger, writes no raft state
//@   requires nonnil: r != nil
//@   modifies nothing

//@ func (r *Raft) restoreSnapshot
//@   requires nonnil: r != nil && r.snapshots != nil && r.logger != nil && r.trans != nil
//@   ensures  term_and_log_untouched: r.currentTerm == old(r.currentTerm) && r.lastLogIndex == old(r.lastLogIndex) && r.lastLogTerm == old(r.lastLogTerm)
//@   at call (*raftState).setLastSnapshot#1 assert records_the_restored_snapshot: success && arg1 == snapshot.Index && arg2 == snapshot.Term
//@   at call (*raftState).setLastApplied#1 assert resumes_after_the_restored_snapshot: success && arg1 == snapshot.Index
//@   at call (*Raft).setCommittedConfiguration#1 assert configuration_index_of_the_restored_snapshot: arg2 == ite(snapshot.Version > 0, snapshot.ConfigurationIndex, snapshot.Index)
//@   at call (*Raft).setLatestConfiguration#1 assert same_configuration_committed_and_latest: arg2 == ite(snapshot.Version > 0, snapshot.ConfigurationIndex, snapshot.Index) && r.configurations.committedIndex == arg2

// ---------------------------------------------------------------------------
// runLeader (C18: one notification per gain and per loss, LeaderCh holds the newest transition;
// C17/C08: step-down answers with ErrLeadershipLost). leaderLoop is used through its contract here:
// it may change anything (modifies everything), so only what runLeader does before and after it counts.

//@ func (r *Raft) runLeader
//@   requires nonnil: r != nil && r.logger != nil && r.leaderCh != nil && typeis(r.conf.v, Config)
//@   requires own_channel: cast(r.conf.v, Config).NotifyCh != r.leaderCh
//@   noinference
//@   localonly
//@   ensures  loss_announced_last: lastsent(r.leaderCh) == false
//@   at call (*Raft).setupLeaderState#1 assert gain_announced_first: lastsent(r.leaderCh) == true && sent(r.leaderCh) == old(sent(r.leaderCh)) + 1
//@   at call (*Raft).setupLeaderState#1 assert at_most_one_gain_message: notify != nil ==> sent(notify) <= old(sent(notify)) + 1 && (sent(notify) == old(sent(notify)) + 1 ==> lastsent(notify) == true)
//@   at call (*Raft).setupLeaderState#1 assert gain_message_skipped_only_on_shutdown: notify != nil && sent(notify) == old(sent(notify)) ==> received(r.shutdownCh) == old(received(r.shutdownCh)) + 1

// the deferred step-down cleanup of runLeader
//@ func (r *Raft) runLeader$1
//@   requires nonnil: r != nil && r.leaderCh != nil && r.leaderState.inflight != nil
//@   requires own_channel: notify != r.leaderCh
//@   localonly
//@   ensures  loss_announced_last: lastsent(r.leaderCh) == false && sent(r.leaderCh) == old(sent(r.leaderCh)) + 1
//@   ensures  at_most_one_loss_message: notify != nil ==> sent(notify) <= old(sent(notify)) + 1 && (sent(notify) == old(sent(notify)) + 1 ==> lastsent(notify) == false)
//@   ensures  loss_message_skipped_only_on_shutdown: notify != nil && sent(notify) == old(sent(notify)) ==> received(r.shutdownCh) == old(received(r.shutdownCh)) + 1
//@   ensures  leader_state_cleared: r.leaderState.inflight == nil && r.leaderState.notify == nil && r.leaderState.commitment == nil && r.leaderState.replState == nil
//@   ensures  own_leadership_no_longer_advertised: !(r.leaderAddr == r.localAddr && r.leaderID == r.localID) || (r.localAddr == "" && r.localID == "")
//@   at call (*deferError).respond#1 assert inflight_answered_leadership_lost: arg1 == ErrLeadershipLost
//@   at call (*deferError).respond#2 assert verify_answered_leadership_lost: arg1 == ErrLeadershipLost

// ---------------------------------------------------------------------------
// C08: the FSM goroutine's batch path (closure applyBatch of runFSM): every future is answered with
// the response at the position of its own entry among the entries that were sent to the FSM.

//@ spec func sendable(t LogType) bool = t == LogCommand || t == LogConfiguration

//@ func (r *Raft) runFSM$2
//@   requires wf: forall j int :: 0 <= j && j < len(reqs) ==> reqs[j] != nil && reqs[j].log != nil
//@   localonly
//@   loop 2 invariant sent_so_far: len(sendLogs) == count(j, #i, sendable(reqs[j].log.Type))
//@   loop 2 invariant stamp: #i > 0 ==> lastBatchIndex == reqs[#i - 1].log.Index && lastBatchTerm == reqs[#i - 1].log.Term
//@   ensures  stamp_follows_batch: batchingEnabled && len(reqs) > 0 ==> lastIndex == reqs[len(reqs) - 1].log.Index && lastTerm == reqs[len(reqs) - 1].log.Term
//@   loop 3 invariant position: i == count(j, #i, sendable(reqs[j].log.Type))
//@   at call (*deferError).respond#1 assert current_request: req == reqs[#i]
//@   at call (*deferError).respond#1 assert position_of_current_request: prev(i) == count(j, #i, sendable(reqs[j].log.Type))
//@   at call (*deferError).respond#1 assert response_at_position: sendable(req.log.Type) ==> req.future.response == responses[prev(i)]
//@   at call (*deferError).respond#1 assert response_of_own_entry: sendable(req.log.Type) ==> req.future.response == responses[count(j, #i, sendable(reqs[j].log.Type))]
//@   at call (*deferError).respond#1 assert no_response_for_unsent_entry: !sendable(req.log.Type) ==> req.future.response == nil
//@   at call (*deferError).respond#1 assert answered_without_error: arg1 == nil

// the single-entry path: applySingle's deferred answer
//@ func (r *Raft) runFSM$1$1
//@   requires wf: req != nil
//@   localonly
//@   at call (*deferError).respond#1 assert response_set_before_answer: req.future.response == resp && arg1 == nil

// ---------------------------------------------------------------------------
// Replication routines, leader side (C05: a follower's match index is reported to quorum tracking only
// from a successful response and is the last index that response covers; C03/C01: a response carrying a
// newer term stops the routine and asks the leader to step down before anything else is done with it).

//@ func updateLastAppended
//@   requires nonnil: s != nil && req != nil && s.commitment != nil
//@   localonly
//@   at call (*commitment).match#* assert reports_last_entry_sent: len(req.Entries) > 0 && arg2 == req.Entries[len(req.Entries) - 1].Index && arg1 == s.peer.ID
//@   at call (*followerReplication).notifyAll#1 assert next_index_follows_match: len(req.Entries) > 0 && req.Entries[len(req.Entries) - 1].Index < MaxUint64 ==> s.nextIndex == req.Entries[len(req.Entries) - 1].Index + 1

//@ func (r *Raft) replicateTo
//@   requires nonnil: r != nil && s != nil && r.trans != nil && r.logs != nil && r.logger != nil && r.snapshots != nil && s.commitment != nil
//@   localonly
//@   at call (*verifyFuture).vote#* assert votes_are_cast_through_notifyAll_only: false
//@   at call updateLastAppended#* assert match_only_from_successful_response: resp.Success && resp.Term <= req.Term
//@   at call (*Raft).handleStaleTerm#1 assert newer_term_stops_replication: resp.Term > req.Term
//@   at call (*followerReplication).setLastContact#1 assert contact_only_from_a_current_term_response: resp.Term <= req.Term
//@   at call hclog.Logger.Warn#1 assert probes_back_one_entry_at_a_time: !resp.Success && (resp.LastLog < MaxUint64 ==> s.nextIndex == max(min(req.PrevLogEntry, resp.LastLog + 1), 1))

//@ func (r *Raft) sendLatestSnapshot
//@   requires nonnil: r != nil && s != nil && r.trans != nil && r.logger != nil && r.snapshots != nil && s.commitment != nil
//@   localonly
//@   at call (*verifyFuture).vote#* assert votes_are_cast_through_notifyAll_only: false
//@   at call (*commitment).match#* assert match_only_from_successful_install: resp.Success && resp.Term <= req.Term && arg2 == meta.Index && arg1 == peer.ID
//@   at call Transport.InstallSnapshot#1 assert request_describes_the_snapshot_sent: arg2.LastLogIndex == meta.Index && arg2.LastLogTerm == meta.Term && arg2.Term == s.currentTerm && arg2.ConfigurationIndex == meta.ConfigurationIndex && arg0 == peer.ID
//@   at call (*Raft).handleStaleTerm#1 assert newer_term_stops_replication: resp.Term > req.Term
//@   at call (*followerReplication).setLastContact#1 assert contact_only_from_a_current_term_response: resp.Term <= req.Term

//@ func (r *Raft) pipelineDecode
//@   requires nonnil: r != nil && s != nil && s.commitment != nil
//@   localonly
//@   at call (*verifyFuture).vote#* assert votes_are_cast_through_notifyAll_only: false
//@   at call updateLastAppended#1 assert match_only_from_successful_response: resp.Success && resp.Term <= req.Term && arg1 == req
//@   at call (*Raft).handleStaleTerm#1 assert newer_term_stops_replication: resp.Term > req.Term
//@   at call (*followerReplication).setLastContact#1 assert contact_only_from_a_current_term_response: resp.Term <= req.Term

// ---------------------------------------------------------------------------
// FSM goroutine: what a snapshot is stamped with (C11), and how the stamp is maintained (C02/C11):
// lastIndex/lastTerm are the captured locals of runFSM shared by its closures.

// the snapshot closure: the request is stamped with the index and term of the last entry the FSM
// goroutine handled, and is always answered
//@ func (r *Raft) runFSM$4
//@   requires nonnil: req != nil && r != nil && r.fsm != nil
//@   localonly
//@   ensures  answered: answered(req.deferError)
//@   at call (*deferError).respond#1 assert nothing_to_snapshot: arg1 == ErrNothingNewToSnapshot && lastIndex == 0
//@   at call (*deferError).respond#2 assert stamped_with_last_handled_entry: req.index == lastIndex && req.term == lastTerm && lastIndex != 0

// the user's state machine is assumed not to write raft's memory (in particular not the entry it is handed)
//@ interface FSM.Apply(log)
//@   modifies nothing
//@ interface FSM.Snapshot()
//@   modifies nothing
//@ interface ConfigurationStore.StoreConfiguration(index, configuration)
//@   modifies nothing
//@ interface BatchingFSM.ApplyBatch(logs)
//@   modifies nothing

// the single-entry closure moves the stamp to the entry it applied
//@ func (r *Raft) runFSM$1
//@   requires nonnil: req != nil && req.log != nil && r != nil && r.fsm != nil
//@   localonly
//@   ensures  stamp_follows_applied_entry: req.log.Type == LogCommand ==> lastIndex == req.log.Index && lastTerm == req.log.Term
//@   ensures  stamp_follows_entries_not_sent_to_the_fsm: req.log.Type != LogCommand && req.log.Type != LogConfiguration ==> lastIndex == req.log.Index && lastTerm == req.log.Term

// the restore closure: answered in every case; on success the stamp is the restored snapshot's
//@ func (r *Raft) runFSM$3
//@   requires nonnil: req != nil && r != nil && r.snapshots != nil && r.logger != nil && r.fsm != nil
//@   localonly
//@   ensures  answered: answered(req.deferError)
//@   at call (*deferError).respond#3 assert stamp_follows_restored_snapshot: arg1 == nil && lastIndex == meta.Index && lastTerm == meta.Term

// ---------------------------------------------------------------------------
// C16 (sliver): NetworkTransport never reuses a connection whose request/response framing may be off.
// Ghost: ioErrors counts failed reads/writes/encodes/decodes on any connection (assumed contracts of
// bufio and the msgpack codec); released[c] is set by (*netConn).Release.

//@ ghostvar ioErrors int
//@ ghostvar released map[*netConn]bool

//@ extern (*bufio.Writer).WriteByte(w, c)
//@   modifies ioErrors
//@   ensures  counted: (result != nil) == (ioErrors == old(ioErrors) + 1) && (result == nil) == (ioErrors == old(ioErrors))

//@ extern (*bufio.Writer).Flush(w)
//@   modifies ioErrors
//@   ensures  counted: (result != nil) == (ioErrors == old(ioErrors) + 1) && (result == nil) == (ioErrors == old(ioErrors))

//@ extern (*github.com/hashicorp/go-msgpack/v2/codec.Encoder).Encode(e, v)
//@   modifies ioErrors
//@   ensures  counted: (result != nil) == (ioErrors == old(ioErrors) + 1) && (result == nil) == (ioErrors == old(ioErrors))

//@ extern (*github.com/hashicorp/go-msgpack/v2/codec.Decoder).Decode(d, v)
//@   modifies ioErrors, allof("H.string."), boxes()
//@   ensures  counted: (result != nil) == (ioErrors == old(ioErrors) + 1) && (result == nil) == (ioErrors == old(ioErrors))

//@ func (n *netConn) Release
//@   trusted closes the underlying net.Conn; the ghost flag released[n] records it
//@   requires nonnil: n != nil
//@   modifies released
//@   ensures  marked: released[n] && (forall c *netConn :: c != n ==> released[c] == old(released[c]))

//@ func sendRPC
//@   requires nonnil: conn != nil && conn.w != nil && conn.enc != nil
//@   modifies ioErrors, released
//@   ensures  error_iff_io_failed: (result == nil) == (ioErrors == old(ioErrors))
//@   ensures  failed_connection_released: result != nil ==> released[conn]
//@   ensures  clean_connection_kept: result == nil ==> released == old(released)

//@ func decodeResponse
//@   requires nonnil: conn != nil && conn.dec != nil
//@   modifies ioErrors, released, allof("H.string."), boxes()
//@   ensures  reusable_iff_fully_decoded: result0 == (ioErrors == old(ioErrors))
//@   ensures  failed_connection_released: !result0 ==> released[conn] && result1 != nil
//@   ensures  clean_connection_kept: result0 ==> released == old(released)

//@ func (n *NetworkTransport) genericRPC
//@   requires nonnil: n != nil
//@   localonly
//@   ensures  failed_exchange_yields_error: result == nil ==> ioErrors == old(ioErrors)
//@   at call (*NetworkTransport).returnConn#1 assert only_a_clean_connection_is_pooled: ioErrors == old(ioErrors) && released == old(released)

// the pipeline: a request is put on the wire before its future is queued for decoding, the decoder
// decodes into the response object of the very future it took from the queue, answers it and passes
// that same future on (FIFO order of Go channels is not modelled; it is what makes "in send order" follow)

//@ func (n *netPipeline) AppendEntries
//@   requires nonnil: n != nil && n.conn != nil && n.conn.w != nil && n.conn.enc != nil && n.trans != nil
//@   localonly
//@   ensures  queued_only_after_a_clean_send: sent(n.inprogressCh) != old(sent(n.inprogressCh)) ==> ioErrors == old(ioErrors) && result1 == nil
//@   ensures  future_pairs_request_and_response: sent(n.inprogressCh) != old(sent(n.inprogressCh)) ==> lastsent(n.inprogressCh).args == args && lastsent(n.inprogressCh).resp == resp && sent(n.inprogressCh) == old(sent(n.inprogressCh)) + 1
//@   ensures  failed_send_yields_error: ioErrors != old(ioErrors) ==> result1 != nil && sent(n.inprogressCh) == old(sent(n.inprogressCh))
//@   at call sendRPC#1 assert sends_the_callers_request: cast(arg2, *AppendEntriesRequest) == args && arg1 == rpcAppendEntries && arg0 == n.conn

//@ func (n *netPipeline) decodeResponses
//@   requires nonnil: n != nil && n.conn != nil && n.conn.dec != nil && n.trans != nil
//@   noinference
//@   localonly
//@   loop 1 step answered_and_passed_on: received(n.inprogressCh) != old(received(n.inprogressCh)) ==> answered(lastreceived(n.inprogressCh).deferError) &&
//@              (sent(n.doneCh) != old(sent(n.doneCh)) ==> sent(n.doneCh) == old(sent(n.doneCh)) + 1 && cast(lastsent(n.doneCh), *appendFuture) == lastreceived(n.inprogressCh))
//@   loop 1 step nothing_passed_on_without_a_request: received(n.inprogressCh) == old(received(n.inprogressCh)) ==> sent(n.doneCh) == old(sent(n.doneCh))
//@   at call decodeResponse#1 assert decodes_into_its_own_future: cast(arg1, *AppendEntriesResponse) == future.resp && arg0 == n.conn
//@   at call (*deferError).respond#1 assert answers_with_the_decode_result: arg1 == err

// ---------------------------------------------------------------------------
// C13: configuration validation keeps the lease inside the heartbeat and election timeouts;
// a follower's last contact is refreshed only from a response that did not carry a newer term.

//@ func ValidateConfig
//@   requires nonnil: config != nil
//@   modifies nothing
//@   ensures  lease_within_heartbeat_within_election: result == nil ==> 5000000 <= config.LeaderLeaseTimeout && config.LeaderLeaseTimeout <= config.HeartbeatTimeout && config.HeartbeatTimeout <= config.ElectionTimeout
//@   ensures  batch_size_bounded: result == nil ==> 1 <= config.MaxAppendEntries && config.MaxAppendEntries <= 1024
//@   ensures  identified: result == nil ==> config.LocalID != "" && config.ProtocolVersion <= ProtocolVersionMax

// ---------------------------------------------------------------------------
// C20 (API side): Restore queues the restore request, waits for it, then queues a no-op and waits for that

//@ func (r *Raft) Restore
//@   requires nonnil: r != nil && r.userRestoreCh != nil && r.applyCh != nil && r.shutdownCh != nil && meta != nil
//@   localonly
//@   ensures  noop_follows_a_successful_restore: result == nil ==> sent(r.userRestoreCh) == old(sent(r.userRestoreCh)) + 1 && sent(r.applyCh) == old(sent(r.applyCh)) + 1
//@   ensures  nothing_queued_when_refused: sent(r.userRestoreCh) == old(sent(r.userRestoreCh)) ==> sent(r.applyCh) == old(sent(r.applyCh)) && result != nil
//@   ensures  at_most_one_of_each: sent(r.userRestoreCh) <= old(sent(r.userRestoreCh)) + 1 && sent(r.applyCh) <= old(sent(r.applyCh)) + 1
//@   at call (*deferError).Error#1 assert restore_request_carries_the_snapshot: restore.meta == meta && restore.reader == reader && restore.errCh != nil && lastsent(r.userRestoreCh) == restore && sent(r.userRestoreCh) == old(sent(r.userRestoreCh)) + 1 && sent(r.applyCh) == old(sent(r.applyCh))
//@   at call (*deferError).Error#2 assert noop_queued_after_the_restore_was_answered: noop.log.Type == LogNoop && noop.errCh != nil && lastsent(r.applyCh) == noop && sent(r.applyCh) == old(sent(r.applyCh)) + 1
//@   at call (*deferError).Error#2 assert queued_future_has_shutdown_escape: noop.ShutdownCh == r.shutdownCh

// C15: Open hands out a snapshot only after the checksum of the state file it is about to return
// matched the checksum recorded in the metadata

//@ ghostvar jsonErrors int
//@ extern (*encoding/json.Decoder).Decode(d, v)
//@   modifies jsonErrors, boxes(), allof("H.fileSnapshotMeta."), allof("H.SnapshotMeta."), allof("E.uint8."), allof("E.Server.")
//@   ensures  counted: (result != nil) == (jsonErrors == old(jsonErrors) + 1) && (result == nil) == (jsonErrors == old(jsonErrors))

// readMeta: metadata is handed out only if the decoder reported success (what the bytes mean is not modelled)
//@ func (f *FileSnapshotStore) readMeta
//@   requires nonnil: f != nil
//@   modifies jsonErrors, boxes(), allof("H.fileSnapshotMeta."), allof("H.SnapshotMeta."), allof("E.uint8."), allof("E.Server."), allof("H.os.File.")
//@   fresh result0
//@   ensures  meta_or_error: (result1 == nil) == (result0 != nil)
//@   ensures  undecodable_metadata_is_an_error: result1 == nil ==> jsonErrors == old(jsonErrors)

//@ func (f *FileSnapshotStore) Open
//@   requires nonnil: f != nil && f.logger != nil
//@   localonly
//@   ensures  all_or_nothing: (result2 == nil) == (result0 != nil) && (result2 == nil) == (result1 != nil)
//@   at call (*os.File).Seek#1 assert checksum_verified_before_handing_out: content(meta.CRC) == content(computed) && arg0 == fh
//@   at call io.Copy#1 assert hashes_the_file_it_returns: cast(arg1, *os.File) == fh

// the snapshot goroutine: a user's Snapshot() request is answered in the iteration that took it, with the
// outcome of the snapshot attempt; an opener is attached only to a successful one
//@ func (r *Raft) runSnapshots
//@   requires nonnil: r != nil && r.logger != nil && r.snapshots != nil && r.logs != nil && r.trans != nil && typeis(r.conf.v, Config)
//@   noinference
//@   localonly
//@   loop 1 step user_snapshot_answered: received(r.userSnapshotCh) != old(received(r.userSnapshotCh)) ==> answered(lastreceived(r.userSnapshotCh).deferError)
//@   at call (*deferError).respond#1 assert answered_with_the_outcome: arg1 == err

// C16, receiving side: one command is decoded into a request object of the type named by the type byte,
// handed to the consumer together with a fresh response channel, and what is written back is the answer
// taken from that very channel; a nil result means no read/decode/encode failed.

//@ extern (*bufio.Reader).ReadByte(b)
//@   modifies ioErrors
//@   ensures  counted: (result1 != nil) == (ioErrors == old(ioErrors) + 1) && (result1 == nil) == (ioErrors == old(ioErrors))

//@ func (n *NetworkTransport) handleCommand
//@   requires nonnil: n != nil && r != nil && dec != nil && enc != nil
//@   localonly
//@   ensures  failed_exchange_yields_error: result == nil ==> ioErrors == old(ioErrors)
//@   ensures  dispatched_at_most_once: sent(n.consumeCh) <= old(sent(n.consumeCh)) + 1
//@   at call time.Now#3 assert request_object_matches_type_byte: rpc.RespChan == respCh &&
//@              (rpcType == rpcAppendEntries ==> typeis(rpc.Command, *AppendEntriesRequest)) &&
//@              (rpcType == rpcRequestVote ==> typeis(rpc.Command, *RequestVoteRequest)) &&
//@              (rpcType == rpcRequestPreVote ==> typeis(rpc.Command, *RequestPreVoteRequest)) &&
//@              (rpcType == rpcInstallSnapshot ==> typeis(rpc.Command, *InstallSnapshotRequest)) &&
//@              (rpcType == rpcTimeoutNow ==> typeis(rpc.Command, *TimeoutNowRequest))
//@   ensures  answer_comes_from_this_requests_channel: sent(n.consumeCh) != old(sent(n.consumeCh)) ==> isfresh(lastsent(n.consumeCh).RespChan)
//@   at call (*github.com/hashicorp/go-msgpack/v2/codec.Encoder).Encode#2 assert writes_the_answer_it_received: arg1 == resp.Response && resp == lastreceived(respCh)

// a pipeline's connection may carry responses nobody has read yet: closing the pipeline releases the
// connection and never hands it back to the pool
//@ func (n *netPipeline) Close
//@   requires nonnil: n != nil && n.conn != nil
//@   localonly
//@   ensures  connection_released_not_pooled: !old(n.shutdown) ==> released[n.conn] && n.shutdown
//@   ensures  idempotent: old(n.shutdown) ==> released == old(released)
//@   at call (*NetworkTransport).returnConn#* assert pipeline_connection_never_pooled: false

// ---------------------------------------------------------------------------
// pipelined replication, send side (C04: what is sent is what the request builder produced; the next
// index to send moves just past the last entry sent, and only when the send succeeded)

//@ func (r *Raft) pipelineSend
//@   requires nonnil: r != nil && s != nil && nextIdx != nil && r.logs != nil && r.logger != nil && r.trans != nil && typeis(r.conf.v, Config)
//@   localonly
//@   ensures  failed_send_leaves_position: result ==> *nextIdx == old(*nextIdx)
//@   ensures  position_moves_past_the_last_entry_sent: !result && len(req.Entries) > 0 && req.Entries[len(req.Entries) - 1].Index < MaxUint64 ==> *nextIdx == req.Entries[len(req.Entries) - 1].Index + 1
//@   ensures  position_kept_when_nothing_was_sent: !result && len(req.Entries) == 0 ==> *nextIdx == old(*nextIdx)
//@   at call AppendPipeline.AppendEntries#1 assert sends_the_request_it_built: arg0 == req
//@   at call (*Raft).setupAppendEntries#1 assert builds_from_the_current_position: arg3 == *nextIdx && arg4 == lastIndex && arg1 == s && arg2 == req

// a leadership-transfer target becomes candidate, forgets its leader and is allowed to skip pre-vote once
//@ func (r *Raft) timeoutNow
//@   requires nonnil: r != nil && rpc.RespChan != nil
//@   localonly
//@   ensures  becomes_privileged_candidate: r.state == Candidate && r.candidateFromLeadershipTransfer.v != 0 && r.leaderAddr == "" && r.leaderID == ""
//@   ensures  term_untouched: r.currentTerm == old(r.currentTerm)
//@   ensures  answered: sent(rpc.RespChan) == old(sent(rpc.RespChan)) + 1 && lastsent(rpc.RespChan).Error == nil

// a follower that reports a newer term makes the leader step down: pending verify requests are voted
// against and the step-down channel is signalled
//@ func (r *Raft) handleStaleTerm
//@   requires nonnil: r != nil && s != nil && r.logger != nil && s.stepDown != nil && s.notify != nil
//@   localonly
//@   at call (*followerReplication).notifyAll#1 assert votes_against_leadership: arg1 == false
//@   at call asyncNotifyCh#1 assert asks_the_leader_to_step_down: arg0 == s.stepDown

// C13: a reloaded configuration is stored only if it validates (lease within heartbeat within election)
//@ func (r *Raft) ReloadConfig
//@   requires nonnil: r != nil && typeis(r.conf.v, Config) && r.followerNotifyCh != nil
//@   localonly
//@   ensures  stored_configuration_is_valid: result == nil ==> typeis(r.conf.v, Config) && cfg(r).LeaderLeaseTimeout <= cfg(r).HeartbeatTimeout && cfg(r).HeartbeatTimeout <= cfg(r).ElectionTimeout && 5000000 <= cfg(r).LeaderLeaseTimeout
//@   ensures  rejected_configuration_changes_nothing: result != nil ==> cfg(r) == old(cfg(r))

// ---------------------------------------------------------------------------
// C07, API side: each membership call queues exactly the change it names (command, server, stale-index
// guard), once, or answers at once with an error without queueing

//@ func (r *Raft) requestConfigChange
//@   requires nonnil: r != nil && r.configurationChangeCh != nil && r.shutdownCh != nil
//@   modifies sent(r.configurationChangeCh), received(r.shutdownCh), allof("CH.recv.time.Time"), allof("CH.lastrecv.time.Time")
//@   ensures  queued_or_refused: typeis(result, *configurationChangeFuture) || (typeis(result, errorFuture) && (cast(result, errorFuture).err == ErrRaftShutdown || cast(result, errorFuture).err == ErrEnqueueTimeout))
//@   ensures  queued_means_sent_once: typeis(result, *configurationChangeFuture) ==> sent(r.configurationChangeCh) == old(sent(r.configurationChangeCh)) + 1 && lastsent(r.configurationChangeCh) == cast(result, *configurationChangeFuture) && isfresh(cast(result, *configurationChangeFuture))
//@   ensures  carries_the_request: typeis(result, *configurationChangeFuture) ==> cast(result, *configurationChangeFuture).req == req && cast(result, *configurationChangeFuture).errCh != nil
//@   ensures  refused_means_not_sent: !typeis(result, *configurationChangeFuture) ==> sent(r.configurationChangeCh) == old(sent(r.configurationChangeCh))

//@ func (r *Raft) AddVoter
//@   requires nonnil: r != nil && r.configurationChangeCh != nil && r.shutdownCh != nil
//@   localonly
//@   ensures  queues_what_it_names: sent(r.configurationChangeCh) != old(sent(r.configurationChangeCh)) ==> lastsent(r.configurationChangeCh).req.command == AddVoter && lastsent(r.configurationChangeCh).req.serverID == id &&
//@              lastsent(r.configurationChangeCh).req.serverAddress == address && lastsent(r.configurationChangeCh).req.prevIndex == prevIndex && r.protocolVersion >= 2

//@ func (r *Raft) AddNonvoter
//@   requires nonnil: r != nil && r.configurationChangeCh != nil && r.shutdownCh != nil
//@   localonly
//@   ensures  queues_what_it_names: sent(r.configurationChangeCh) != old(sent(r.configurationChangeCh)) ==> lastsent(r.configurationChangeCh).req.command == AddNonvoter && lastsent(r.configurationChangeCh).req.serverID == id &&
//@              lastsent(r.configurationChangeCh).req.serverAddress == address && lastsent(r.configurationChangeCh).req.prevIndex == prevIndex && r.protocolVersion >= 3

//@ func (r *Raft) RemoveServer
//@   requires nonnil: r != nil && r.configurationChangeCh != nil && r.shutdownCh != nil
//@   localonly
//@   ensures  queues_what_it_names: sent(r.configurationChangeCh) != old(sent(r.configurationChangeCh)) ==> lastsent(r.configurationChangeCh).req.command == RemoveServer && lastsent(r.configurationChangeCh).req.serverID == id &&
//@              lastsent(r.configurationChangeCh).req.prevIndex == prevIndex && r.protocolVersion >= 2

//@ func (r *Raft) DemoteVoter
//@   requires nonnil: r != nil && r.configurationChangeCh != nil && r.shutdownCh != nil
//@   localonly
//@   ensures  queues_what_it_names: sent(r.configurationChangeCh) != old(sent(r.configurationChangeCh)) ==> lastsent(r.configurationChangeCh).req.command == DemoteVoter && lastsent(r.configurationChangeCh).req.serverID == id &&
//@              lastsent(r.configurationChangeCh).req.prevIndex == prevIndex && r.protocolVersion >= 3

// ---------------------------------------------------------------------------
// C16: the connection pool. A connection taken from the pool is no longer in it (two exchanges never
// share one), the rest of the pool is untouched; a connection handed back is either appended to the
// pool of its own target or released, never both, and the pool never grows beyond maxPool.

//@ func (n *NetworkTransport) getPooledConn
//@   requires nonnil: n != nil
//@   requires pool_holds_connections: forall j int :: 0 <= j && j < len(n.connPool[target]) ==> n.connPool[target][j] != nil
//@   modifies n.connPool[*], allof("E.PnetConn.")
//@   ensures  taken_out_of_the_pool: result != nil ==> len(n.connPool[target]) == old(len(n.connPool[target])) - 1 && result == old(n.connPool[target][len(n.connPool[target]) - 1])
//@   ensures  rest_of_the_pool_kept: forall j int :: 0 <= j && j < len(n.connPool[target]) ==> n.connPool[target][j] == old(n.connPool[target][j])
//@   ensures  nothing_pooled_means_nil: (result == nil) == (!old(dom(n.connPool, target)) || old(len(n.connPool[target])) == 0)
//@   ensures  taken_from_a_nonempty_pool: result != nil ==> old(len(n.connPool[target])) > 0
//@   ensures  nil_leaves_pool: result == nil ==> len(n.connPool[target]) == old(len(n.connPool[target]))
//@   ensures  other_targets_untouched: forall k ServerAddress :: k != target ==> n.connPool[k] == old(n.connPool[k])

//@ func (n *NetworkTransport) returnConn
//@   requires nonnil: n != nil && conn != nil
//@   modifies n.connPool[*], allof("E.PnetConn."), released, received(n.shutdownCh)
//@   ensures  pooled_or_released_never_both: !old(released[conn]) ==> released[conn] != (len(n.connPool[conn.target]) == old(len(n.connPool[conn.target])) + 1 && n.connPool[conn.target][len(n.connPool[conn.target]) - 1] == conn)
//@   ensures  released_means_pool_unchanged: released[conn] && !old(released[conn]) ==> len(n.connPool[conn.target]) == old(len(n.connPool[conn.target]))
//@   ensures  pool_is_bounded: len(n.connPool[conn.target]) <= max(old(len(n.connPool[conn.target])), n.maxPool)
//@   ensures  earlier_entries_kept: forall j int :: 0 <= j && j < old(len(n.connPool[conn.target])) ==> n.connPool[conn.target][j] == old(n.connPool[conn.target][j])
//@   ensures  nobody_else_released: forall c *netConn :: c != conn ==> released[c] == old(released[c])
//@   ensures  other_targets_untouched: forall k ServerAddress :: k != conn.target ==> n.connPool[k] == old(n.connPool[k])

// a connection comes from the pool of the very target asked for, or is dialled anew for it
//@ func (n *NetworkTransport) getConn
//@   requires nonnil: n != nil && n.stream != nil
//@   requires pool_holds_connections: forall j int :: 0 <= j && j < len(n.connPool[target]) ==> n.connPool[target][j] != nil
//@   localonly
//@   ensures  connection_or_error: (result1 == nil) == (result0 != nil)
//@   ensures  pooled_for_this_target_or_new: result0 != nil ==> (isfresh(result0) && result0.target == target) || (old(len(n.connPool[target])) > 0 && result0 == old(n.connPool[target][len(n.connPool[target]) - 1]))
//@   ensures  pooled_connection_leaves_the_pool: result0 != nil && !isfresh(result0) ==> len(n.connPool[target]) == old(len(n.connPool[target])) - 1

// the snapshot stream: the connection is always released and never pooled (the stream leaves it in an
// unknown framing state); a nil result means no write, copy, flush or decode failed
//@ extern io.Copy(dst, src)
//@   modifies ioErrors
//@   ensures  counted: (result1 != nil) == (ioErrors == old(ioErrors) + 1) && (result1 == nil) == (ioErrors == old(ioErrors))

//@ func (n *NetworkTransport) InstallSnapshot
//@   requires nonnil: n != nil && n.stream != nil && args != nil && n.TimeoutScale != 0
//@   localonly
//@   ensures  failed_exchange_yields_error: result == nil ==> ioErrors == old(ioErrors)
//@   at call (*NetworkTransport).returnConn#* assert snapshot_connection_never_pooled: false
//@   at call sendRPC#1 assert sends_the_callers_request: cast(arg2, *InstallSnapshotRequest) == args && arg1 == rpcInstallSnapshot
//@   at call io.Copy#1 assert streams_the_callers_data_after_the_request: arg1 == data && cast(arg0, *bufio.Writer) == conn.w
//@   at call decodeResponse#1 assert response_read_after_flushing_on_the_same_connection: arg0 == conn && cast(arg1, *InstallSnapshotResponse) == resp
//@   at call (*netConn).Release#* assert releases_its_own_connection: arg0 == conn

// ---------------------------------------------------------------------------
// C10/C11/C07: the copy of the configurations handed to the snapshot goroutine and to GetConfiguration
// pairs each index with its own server list (a snapshot records `committed` as the configuration in force)

//@ spec func sameServers(a Configuration, b Configuration) bool =
//@   len(a.Servers) == len(b.Servers) && forall k int :: 0 <= k && k < len(a.Servers) ==> a.Servers[k] == b.Servers[k]

//@ func (c *Configuration) Clone
//@   requires nonnil: c != nil
//@   ensures  same_servers: sameServers(result, *c)
//@   ensures  no_alias: len(c.Servers) > 0 ==> isfresh(arrayof(result.Servers))

//@ func (c *configurations) Clone
//@   requires nonnil: c != nil
//@   ensures  committed_copied: sameServers(result.committed, c.committed) && result.committedIndex == c.committedIndex
//@   ensures  latest_copied: sameServers(result.latest, c.latest) && result.latestIndex == c.latestIndex

// ---------------------------------------------------------------------------
// C05/C07: a new leader tracks commitment from the first index of its own term, over the voters of
// the latest configuration, with empty queues

//@ extern container/list.New()
//@   modifies listLen
//@   fresh result
//@   ensures  empty: result != nil && listLen[result] == 0 && (forall m *list.List :: m != result ==> listLen[m] == old(listLen[m]))

//@ func (r *Raft) setupLeaderState
//@   requires nonnil: r != nil
//@   requires index_range: r.lastLogIndex < MaxInt63 && r.lastSnapshotIndex < MaxInt63
//@   localonly
//@   ensures  commit_tracking_starts_after_the_inherited_log: r.leaderState.commitment != nil && r.leaderState.commitment.startIndex == lastEntryIndex(r) + 1 && r.leaderState.commitment.commitIndex == 0
//@   ensures  tracks_the_voters_of_the_latest_configuration: forall id ServerID :: dom(r.leaderState.commitment.matchIndexes, id) == isVoter(r.configurations.latest, id)
//@   ensures  nothing_matched_yet: forall id ServerID :: r.leaderState.commitment.matchIndexes[id] == 0
//@   ensures  commit_notifications_reach_the_leader_loop: r.leaderState.commitment.commitCh == r.leaderState.commitCh && r.leaderState.commitCh != nil
//@   ensures  fresh_queues: r.leaderState.inflight != nil && listLen[r.leaderState.inflight] == 0 && r.leaderState.stepDown != nil && card(r.leaderState.notify) == 0 && card(r.leaderState.replState) == 0

// ---------------------------------------------------------------------------
// C10: bootstrap and the existing-state test

//@ interface LogStore.StoreLog(log)
//@   requires nonnil: log != nil
//@   modifies this.has, this.ent, this.first, this.last
//@   ensures  stored:  result == nil ==> this.has[log.Index] && this.ent[log.Index] == *log
//@   ensures  others:  result == nil ==> forall i uint64 :: i != log.Index ==> this.has[i] == old(this.has[i]) && this.ent[i] == old(this.ent[i])
//@   ensures  atomic:  result != nil ==> this.has == old(this.has) && this.ent == old(this.ent) && this.first == old(this.first) && this.last == old(this.last)

//@ spec func durableTermSet(stable StableStore) bool = stable.hasu[content(keyCurrentTerm)] && stable.u64[content(keyCurrentTerm)] > 0

//@ func HasExistingState
//@   requires nonnil: logs != nil && stable != nil && snaps != nil
//@   modifies nothing
//@   ensures  a_recorded_term_is_state: result1 == nil && durableTermSet(stable) ==> result0
//@   ensures  a_log_entry_is_state: result1 == nil && (exists i uint64 :: logs.has[i]) ==> result0
//@   ensures  error_means_unknown: result1 != nil ==> !result0

//@ func BootstrapCluster
//@   requires nonnil: conf != nil && logs != nil && stable != nil && snaps != nil
//@   localonly
//@   ensures  refused_on_existing_state: (durableTermSet(stable) || (exists i uint64 :: old(logs.has[i]))) && old(durableTermSet(stable)) == durableTermSet(stable) ==> result != nil
//@   ensures  existing_state_untouched: old(durableTermSet(stable)) ==> logs.has == old(logs.has) && logs.ent == old(logs.ent) && stable.u64 == old(stable.u64) && stable.hasu == old(stable.hasu)
//@   ensures  invalid_configuration_changes_nothing: !validConfiguration(configuration) ==> result != nil && logs.has == old(logs.has) && stable.u64 == old(stable.u64) && stable.hasu == old(stable.hasu)
//@   ensures  bootstrapped: result == nil ==> stable.hasu[content(keyCurrentTerm)] && stable.u64[content(keyCurrentTerm)] == 1 && logs.has[1] && logs.ent[1].Index == 1 && logs.ent[1].Term == 1 &&
//@              (conf.ProtocolVersion >= 3 ==> logs.ent[1].Type == LogConfiguration) && (conf.ProtocolVersion < 3 ==> logs.ent[1].Type == LogRemovePeerDeprecated)
//@   ensures  only_entry_one_written: forall i uint64 :: i != 1 ==> logs.has[i] == old(logs.has[i])
//@   at call LogStore.StoreLog#1 assert term_recorded_before_the_entry: stable.hasu[content(keyCurrentTerm)] && stable.u64[content(keyCurrentTerm)] == 1

// ---------------------------------------------------------------------------
// C17: the remaining enqueueing API calls. Snapshot and BootstrapCluster use unbuffered queues: the
// future is either handed to a run loop (sent once) or answered at once with ErrRaftShutdown.

//@ func (r *Raft) Snapshot
//@   requires nonnil: r != nil && r.userSnapshotCh != nil && r.shutdownCh != nil
//@   localonly
//@   ensures  a_future_of_its_own: typeis(result, *userSnapshotFuture) && isfresh(cast(result, *userSnapshotFuture)) && cast(result, *userSnapshotFuture).errCh != nil
//@   ensures  queued_once_or_answered_shutdown: (sent(r.userSnapshotCh) == old(sent(r.userSnapshotCh)) + 1 && lastsent(r.userSnapshotCh) == cast(result, *userSnapshotFuture) && !cast(result, *userSnapshotFuture).responded) ||
//@              (sent(r.userSnapshotCh) == old(sent(r.userSnapshotCh)) && cast(result, *userSnapshotFuture).responded && lastsent(cast(result, *userSnapshotFuture).errCh) == ErrRaftShutdown)

//@ func (r *Raft) BootstrapCluster
//@   requires nonnil: r != nil && r.bootstrapCh != nil && r.shutdownCh != nil
//@   localonly
//@   ensures  queued_once_or_refused: (typeis(result, *bootstrapFuture) && sent(r.bootstrapCh) == old(sent(r.bootstrapCh)) + 1 && lastsent(r.bootstrapCh) == cast(result, *bootstrapFuture) && cast(result, *bootstrapFuture).errCh != nil) ||
//@              (typeis(result, errorFuture) && cast(result, errorFuture).err == ErrRaftShutdown && sent(r.bootstrapCh) == old(sent(r.bootstrapCh)))
//@   ensures  carries_the_configuration: typeis(result, *bootstrapFuture) ==> sameServers(cast(result, *bootstrapFuture).configuration, configuration)

//@ func (r *Raft) Shutdown
//@   requires nonnil: r != nil && r.shutdownCh != nil
//@   requires flag_follows_channel: r.shutdown ==> closed(r.shutdownCh)
//@   localonly
//@   ensures  marked_shut_down: r.shutdown
//@   ensures  first_call_stops_the_server: !old(r.shutdown) ==> r.state == Shutdown && typeis(result, *shutdownFuture) && cast(result, *shutdownFuture).raft == r
//@   ensures  shutdown_channel_closed: closed(r.shutdownCh)
//@   ensures  later_calls_wait_for_nothing: old(r.shutdown) ==> typeis(result, *shutdownFuture) && cast(result, *shutdownFuture).raft == nil && r.state == old(r.state)

//@ func (r *Raft) LeadershipTransfer
//@   requires nonnil: r != nil && r.leadershipTransferCh != nil && r.shutdownCh != nil
//@   localonly
//@   ensures  old_protocol_refused: r.protocolVersion < 3 ==> typeis(result, errorFuture) && cast(result, errorFuture).err == ErrUnsupportedProtocol && sent(r.leadershipTransferCh) == old(sent(r.leadershipTransferCh))
//@   ensures  queued_future_has_shutdown_escape: typeis(result, *leadershipTransferFuture) ==> cast(result, *leadershipTransferFuture).ShutdownCh == r.shutdownCh && cast(result, *leadershipTransferFuture).ID == nil && cast(result, *leadershipTransferFuture).Address == nil

//@ func (r *Raft) LeadershipTransferToServer
//@   requires nonnil: r != nil && r.leadershipTransferCh != nil && r.shutdownCh != nil
//@   localonly
//@   ensures  old_protocol_refused: r.protocolVersion < 3 ==> typeis(result, errorFuture) && cast(result, errorFuture).err == ErrUnsupportedProtocol && sent(r.leadershipTransferCh) == old(sent(r.leadershipTransferCh))
//@   ensures  names_the_requested_server: typeis(result, *leadershipTransferFuture) ==> cast(result, *leadershipTransferFuture).ShutdownCh == r.shutdownCh && cast(result, *leadershipTransferFuture).ID != nil && *cast(result, *leadershipTransferFuture).ID == id && *cast(result, *leadershipTransferFuture).Address == address

// ---------------------------------------------------------------------------
// C14/C01: only the other voters of the latest configuration are asked for a (pre-)vote; the pre-vote round
// proposes the next term without changing the server's term or state

//@ func (r *Raft) preElectSelf
//@   requires nonnil: r != nil && r.trans != nil && r.logger != nil
//@   localonly
//@   at call (*Raft).preElectSelf$1#* assert only_other_voters_are_asked: arg0.Suffrage == Voter && arg0.ID != r.localID
//@   ensures  proposes_without_changing_state: r.currentTerm == old(r.currentTerm) && r.state == old(r.state)

// ---------------------------------------------------------------------------
// C08: Apply is ApplyLog with the caller's bytes; C18: Leader()/LeaderWithID() report the advertised leader

//@ func (r *Raft) Apply
//@   requires nonnil: r != nil && r.applyCh != nil && r.shutdownCh != nil
//@   localonly
//@   ensures  queues_the_callers_bytes: typeis(result, *logFuture) ==> cast(result, *logFuture).log.Data == cmd && cast(result, *logFuture).log.Type == LogCommand &&
//@              sent(r.applyCh) == old(sent(r.applyCh)) + 1 && lastsent(r.applyCh) == cast(result, *logFuture)
//@   ensures  refused_means_not_queued: !typeis(result, *logFuture) ==> sent(r.applyCh) == old(sent(r.applyCh))

//@ func (r *Raft) Leader
//@   requires nonnil: r != nil
//@   ensures  advertised_leader: result == r.leaderAddr

//@ func (r *Raft) LeaderWithID
//@   requires nonnil: r != nil
//@   ensures  advertised_leader: result0 == r.leaderAddr && result1 == r.leaderID

// C10: the commit index is staged only in RestoreCommittedLogs mode, on a commit-tracking store, and it is the value given
//@ func (r *Raft) tryStageCommitIndex
//@   requires nonnil: r != nil && r.logger != nil
//@   localonly
//@   at call CommitTrackingLogStore.StageCommitIndex#1 assert stages_the_given_index_only_when_enabled: arg0 == commitIndex && r.RestoreCommittedLogs

// ---------------------------------------------------------------------------
// Conformance of the in-repo InmemStore with the assumed LogStore contract (has[i] = i in dom(logs),
// ent[i] = *logs[i]). Only the entry map is covered: FirstIndex/LastIndex of InmemStore are exact only for
// logs that are appended in increasing order, which is how raft uses them (not claimed here).

//@ spec func inmemInv(i *InmemStore) bool = forall k uint64 :: dom(i.logs, k) ==> i.logs[k] != nil && i.logs[k].Index == k

//@ func (i *InmemStore) GetLog
//@   requires nonnil: i != nil && log != nil
//@   requires inv: inmemInv(i)
//@   requires noalias: forall k uint64 :: dom(i.logs, k) ==> i.logs[k] != log
//@   modifies *log
//@   ensures  found: result == nil ==> dom(i.logs, index) && *log == *i.logs[index] && log.Index == index
//@   ensures  notfound: !dom(i.logs, index) ==> result != nil
//@   ensures  found_whenever_present: dom(i.logs, index) ==> result == nil

//@ func (i *InmemStore) StoreLogs
//@   requires nonnil: i != nil && i.logs != nil && (forall k int :: 0 <= k && k < len(logs) ==> logs[k] != nil)
//@   requires inv: inmemInv(i)
//@   requires distinct: forall a int, b int :: 0 <= a && a < b && b < len(logs) ==> logs[a].Index != logs[b].Index
//@   modifies i.logs[*], i.lowIndex, i.highIndex
//@   ensures  never_fails: result == nil
//@   ensures  stored: forall k int :: 0 <= k && k < len(logs) ==> dom(i.logs, logs[k].Index) && i.logs[logs[k].Index] == logs[k]
//@   ensures  others: forall x uint64 :: (forall k int :: 0 <= k && k < len(logs) ==> logs[k].Index != x) ==> dom(i.logs, x) == old(dom(i.logs, x)) && i.logs[x] == old(i.logs[x])
//@   ensures  inv: inmemInv(i)
//@   loop 1 invariant stored_so_far: forall k int :: 0 <= k && k < #i ==> dom(i.logs, logs[k].Index) && i.logs[logs[k].Index] == logs[k]
//@   loop 1 invariant others_so_far: forall x uint64 :: (forall k int :: 0 <= k && k < #i ==> logs[k].Index != x) ==> dom(i.logs, x) == old(dom(i.logs, x)) && i.logs[x] == old(i.logs[x])
//@   loop 1 invariant inv: inmemInv(i)

//@ func (i *InmemStore) SetUint64
//@   requires nonnil: i != nil && i.kvInt != nil
//@   modifies i.kvInt[*]
//@   ensures  ok: result == nil && dom(i.kvInt, content(key)) && i.kvInt[content(key)] == val
//@   ensures  others: forall k string :: k != content(key) ==> dom(i.kvInt, k) == old(dom(i.kvInt, k)) && i.kvInt[k] == old(i.kvInt[k])

//@ func (i *InmemStore) GetUint64
//@   requires nonnil: i != nil
//@   modifies nothing
//@   ensures  found: dom(i.kvInt, content(key)) ==> result1 == nil && result0 == i.kvInt[content(key)]
//@   ensures  absent: !dom(i.kvInt, content(key)) ==> result0 == 0 && result1 == nil

//@ func (i *InmemStore) DeleteRange
//@   requires nonnil: i != nil && i.logs != nil
//@   requires inv: inmemInv(i)
//@   requires terminates: max < MaxUint64
//@   modifies i.logs[*], i.lowIndex, i.highIndex
//@   ensures  never_fails: result == nil
//@   ensures  range_deleted: forall x uint64 :: min <= x && x <= max ==> !dom(i.logs, x)
//@   ensures  outside_untouched: forall x uint64 :: !(min <= x && x <= max) ==> dom(i.logs, x) == old(dom(i.logs, x))
//@   ensures  kept: forall x uint64 :: dom(i.logs, x) ==> i.logs[x] == old(i.logs[x])
//@   ensures  inv: inmemInv(i)
//@   loop 1 invariant progress: j >= min && (min <= max ==> j <= max + 1) && (min > max ==> j == min)
//@   loop 1 invariant deleted_so_far: forall x uint64 :: dom(i.logs, x) == (old(dom(i.logs, x)) && !(min <= x && x < j))
//@   loop 1 invariant kept_so_far: forall x uint64 :: dom(i.logs, x) ==> i.logs[x] == old(i.logs[x])

// ---------------------------------------------------------------------------
// C02/C08: which committed entries are handed to the FSM goroutine, each paired with its own future
//@ func (r *Raft) prepareLog
//@   requires nonnil: r != nil && l != nil
//@   ensures  only_fsm_bound_entry_types: (result != nil) == (l.Type == LogBarrier || l.Type == LogCommand || (l.Type == LogConfiguration && r.protocolVersion > 2))
//@   ensures  pairs_the_entry_with_its_own_future: result != nil ==> result.log == l && result.future == future && isfresh(result)

// C07: the target the leader picks for a leadership transfer is a voter of the latest configuration other than itself
//@ func (r *Raft) pickServer
//@   requires nonnil: r != nil
//@   ensures  picks_another_voter: result != nil ==> result.Suffrage == Voter && result.ID != r.localID
//@   loop 1 invariant candidate_is_another_voter: pick != nil ==> pick.Suffrage == Voter && pick.ID != r.localID

// ---------------------------------------------------------------------------
// C10/C07: live bootstrap - only a server that is a voter of the given configuration bootstraps; on success the
// in-memory term and log tail are those of the entry that was just made durable
//@ func (r *Raft) liveBootstrap
//@   requires nonnil: r != nil && r.logs != nil && r.stable != nil && r.snapshots != nil && r.logger != nil && r.trans != nil && typeis(r.conf.v, Config)
//@   localonly
//@   ensures  memory_follows_the_durable_bootstrap: result == nil ==> r.currentTerm == 1 && r.lastLogIndex == 1 && r.lastLogTerm == 1 && r.logs.has[1]
//@   at call BootstrapCluster#1 assert only_a_voter_bootstraps: exists k int :: 0 <= k && k < len(configuration.Servers) && configuration.Servers[k].ID == r.localID && configuration.Servers[k].Suffrage == Voter

// ---------------------------------------------------------------------------
// C15: Create hands out a sink that records exactly the snapshot it was asked for; nothing is renamed or removed
// (that the directory carries the temporary suffix is not claimed: filepath.Join is not modelled)
//@ func (f *FileSnapshotStore) Create
//@   requires nonnil: f != nil && f.logger != nil
//@   localonly
//@   ensures  only_version_one: version != 1 ==> result1 != nil
//@   ensures  sink_or_error: (result1 == nil) == typeis(result0, *FileSnapshotSink)
//@   ensures  sink_records_the_requested_snapshot: result1 == nil ==> cast(result0, *FileSnapshotSink).meta.Index == index && cast(result0, *FileSnapshotSink).meta.Term == term &&
//@              cast(result0, *FileSnapshotSink).meta.ConfigurationIndex == configurationIndex && cast(result0, *FileSnapshotSink).meta.Version == version &&
//@              cast(result0, *FileSnapshotSink).store == f && cast(result0, *FileSnapshotSink).parentDir == f.path && cast(result0, *FileSnapshotSink).noSync == f.noSync && !cast(result0, *FileSnapshotSink).closed
//@   ensures  nothing_visible_yet: renames == old(renames) && removals == old(removals)

// C17: GetConfiguration never waits for a run loop: the future it returns is already answered, without error
//@ func (r *Raft) GetConfiguration
//@   requires nonnil: r != nil
//@   localonly
//@   ensures  answered_at_once: typeis(result, *configurationsFuture) && cast(result, *configurationsFuture).responded && cast(result, *configurationsFuture).errCh != nil &&
//@              lastsent(cast(result, *configurationsFuture).errCh) == nil && isfresh(cast(result, *configurationsFuture))
