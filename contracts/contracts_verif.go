//go:build verif

// Contracts for the deductive verifier in /verif/govc (comment-only file: it
// declares nothing and, with the build tag off, is not even compiled).
// Syntax: see /verif/DESIGN.md section 3.

package raft

// ---------------------------------------------------------------------------
// Ghost models and assumed interface contracts (trusted base)

//@ model LogStore { has map[uint64]bool; ent map[uint64]Log }

//@ interface LogStore.GetLog(index, log)
//@   requires lognonnil: log != nil
//@   modifies *log
//@   ensures  found:    result == nil ==> this.has[index] && *log == this.ent[index]
//@   ensures  notfound: !this.has[index] ==> result != nil

//@ interface LogStore.StoreLogs(logs)
//@   modifies this.has, this.ent
//@   ensures  stored:   result == nil ==> forall k int :: 0 <= k && k < len(logs) ==>
//@                        this.has[logs[k].Index]
//@   ensures  others:   result == nil ==> forall i uint64 ::
//@                        (forall k int :: 0 <= k && k < len(logs) ==> logs[k].Index != i) ==>
//@                        this.has[i] == old(this.has[i]) && this.ent[i] == old(this.ent[i])
//@   ensures  atomic:   result != nil ==> this.has == old(this.has) && this.ent == old(this.ent)

// ---------------------------------------------------------------------------
// C05: commitment

//@ func (c *commitment) recalculate
//@   requires cnonnil: c != nil
//@   modifies c.commitIndex, sent(c.commitCh)
//@   ensures  monotone:   c.commitIndex >= old(c.commitIndex)
//@   ensures  term_rule:  c.commitIndex != old(c.commitIndex) ==> c.commitIndex >= c.startIndex
//@   ensures  majority_size: c.commitIndex != old(c.commitIndex) ==>
//@              2*(card(c.matchIndexes) - (card(c.matchIndexes)-1)/2) > card(c.matchIndexes)
//@   ensures  strict_majority: c.commitIndex != old(c.commitIndex) ==>
//@              forall j int :: (card(c.matchIndexes)-1)/2 <= j && j < card(c.matchIndexes) ==>
//@                dom(c.matchIndexes, #key(#perm(j))) && c.matchIndexes[#key(#perm(j))] >= c.commitIndex
//@   ensures  distinct_voters: forall a int, b int :: 0 <= a && a < b && b < card(c.matchIndexes) ==>
//@              #key(#perm(a)) != #key(#perm(b))
//@   ensures  notify_iff_advanced: sent(c.commitCh) != old(sent(c.commitCh)) ==> c.commitIndex != old(c.commitIndex)
//@   ensures  map_unchanged: card(c.matchIndexes) == old(card(c.matchIndexes))
//@   loop 1 invariant size: len(matched) == #i && cap(matched) >= #card
//@   loop 1 invariant gather: forall j int :: 0 <= j && j < #i ==> matched[j] == c.matchIndexes[#key(j)]
