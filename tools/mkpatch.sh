#!/bin/sh
# usage: tools/mkpatch.sh <name> <property> <breaks|-> <file> <python-expr on s>
name=$1; prop=$2; breaks=$3; file=$4; expr=$5
tmp=$(mktemp -d /tmp/verif-scratch.XXXXXX)
mkdir -p $tmp/a $tmp/b
cp /repo/$file $tmp/a/$file; cp /repo/$file $tmp/b/$file
python3 - "$tmp/b/$file" "$expr" <<'PY'
import sys
p, expr = sys.argv[1], sys.argv[2]
s = open(p).read()
t = eval(expr)
if t == s:
    print("mkpatch: edit did not change the file"); sys.exit(1)
open(p, "w").write(t)
PY
[ $? -eq 0 ] || { rm -rf $tmp; exit 1; }
out=/verif/selftest/$name.patch
{ echo "# property: $prop"; [ "$breaks" != "-" ] && echo "# breaks: $breaks"; (cd $tmp && diff -u a/$file b/$file); } > $out
rm -rf $tmp
echo "wrote $out"
