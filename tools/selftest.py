#!/usr/bin/env python3
"""Must-fail / must-pass corpus runner.
Each selftest/*.patch starts with comment lines:
  # property: C05
  # breaks: (*commitment).recalculate#post:strict_majority      (must-fail; omit for must-pass patches named ok_*.patch)
The patch is applied to a scratch copy of /repo (removed afterwards) and the property's check is run on it."""
import sys, os, subprocess, tempfile, shutil, re, glob, json
root = os.path.dirname(os.path.dirname(os.path.abspath(__file__)))
only = sys.argv[1:]
patches = sorted(glob.glob(os.path.join(root, "selftest", "*.patch"))) + sorted(glob.glob(os.path.join(root, "seeded", "*", "patch.diff")))
bad = 0
results = []
for p in patches:
    name = os.path.basename(p)
    text = open(p).read()
    if name == "patch.diff":
        name = "seeded/" + os.path.basename(os.path.dirname(p))
        meta = json.load(open(os.path.join(os.path.dirname(p), "meta.json")))
        prop, breaks = meta["property"], meta.get("expect_obligation", "obligation=")
        if meta.get("not_detected"):
            print("skip %-40s recorded as not detected: %s" % (name, meta["not_detected"])); continue
    else:
        prop = re.search(r"^# property:\s*(\S+)", text, re.M).group(1)
        m = re.search(r"^# breaks:\s*(.+)$", text, re.M)
        breaks = m.group(1).strip() if m else None
    if only and not any(o in name or o == prop for o in only):
        continue
    scratch = tempfile.mkdtemp(prefix="verif-scratch.")
    try:
        subprocess.check_call(["rsync", "-a", "--exclude", ".git", "/repo/", scratch + "/"])
        r = subprocess.run(["patch", "-p1", "-s", "-d", scratch], input=text, text=True, capture_output=True)
        if r.returncode != 0:
            print("SELFTEST-ERROR %s: patch does not apply: %s" % (name, r.stdout + r.stderr)); bad += 1; continue
        env = dict(os.environ, GOFLAGS="-mod=mod", GOPROXY="off", VERIF_ROOT=root)
        r = subprocess.run([os.path.join(root, "bin", "govc"), "check", "-prop", prop, "-tier", "quick", "-repo", scratch, "-no-evidence", "-replay-dir", os.path.join(scratch, ".replays")], env=env, capture_output=True, text=True)
        out = r.stdout + r.stderr
        viol = [l for l in out.splitlines() if l.startswith("VIOLATION")]
        if breaks:
            hit = [l for l in viol if breaks in l]
            ok = r.returncode == 1 and len(hit) > 0
            print("%s %-40s expected %s -> exit %d, %d violation line(s)%s" % ("ok  " if ok else "FAIL", name, breaks, r.returncode, len(viol), "" if ok else "\n" + out[-1500:]))
        else:
            ok = r.returncode == 0 and not viol
            print("%s %-40s must pass -> exit %d%s" % ("ok  " if ok else "FAIL", name, r.returncode, "" if ok else "\n" + out[-1500:]))
        results.append({"patch": name, "property": prop, "breaks": breaks, "ok": ok, "violations": viol})
        if not ok: bad += 1
    finally:
        shutil.rmtree(scratch, ignore_errors=True)
json.dump(results, open(os.path.join(root, "selftest", "last_run.json"), "w"), indent=1)
sys.exit(1 if bad else 0)
