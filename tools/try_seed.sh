#!/bin/sh
# usage: tools/try_seed.sh <patch.diff> <property> [more properties...]
# applies the patch to a scratch copy of /repo and runs the property's quick check on it (no evidence written)
p=$1; shift
export GOFLAGS=-mod=mod GOPROXY=off VERIF_ROOT=/verif
s=$(mktemp -d /tmp/verif-scratch.XXXXXX)
rsync -a --exclude .git /repo/ $s/
(cd $s && patch -p1 -s < $p) || { echo "patch does not apply"; rm -rf $s; exit 2; }
for prop in "$@"; do
  /verif/bin/govc check -prop $prop -tier quick -repo $s -no-evidence -replay-dir $s/.replays 2>&1 | grep -E "^(VIOLATION|UNDECIDED|KNOWN|property=)" | cut -c1-400
done
rm -rf $s
