#!/bin/sh
# usage: tools/confirm_seed.sh <seed-dir> <name>
# Confirms in a fresh scratch worktree of /repo: patch applies and builds, demo fails with it and passes without,
# existing suite still passes with it (known always-fail/flaky tests excepted). Writes <seed-dir>/confirm.log.
sd=$1; name=$2
export GOFLAGS=-mod=mod GOPROXY=off
wt=/tmp/confirm-$name
rm -rf $wt; git -C /repo worktree prune; git -C /repo worktree add -q --detach $wt HEAD || exit 2
log=$sd/confirm.log; : > $log
cd $wt
git apply $sd/patch.diff >> $log 2>&1 || { echo "PATCH-DOES-NOT-APPLY" >> $log; }
go build ./... >> $log 2>&1 && echo "BUILD-OK" >> $log
cp $sd/demo_test.go $wt/zz_seed_demo_test.go
echo "== demo with patch (must fail)" >> $log
go test -vet=off -count=1 -timeout 10m -run "$(grep -o 'func Test[A-Za-z0-9_]*' $sd/demo_test.go | sed 's/func //' | paste -sd'|')" . 2>&1 | grep -E "^(--- FAIL|--- PASS|ok|FAIL|panic)" >> $log
rm -f $wt/zz_seed_demo_test.go
echo "== full suite with patch" >> $log
go test -vet=off -count=1 -timeout 25m . 2>&1 | grep -E "^(--- FAIL|ok|FAIL|panic)" >> $log
git checkout -q -- . 
cp $sd/demo_test.go $wt/zz_seed_demo_test.go
echo "== demo without patch (must pass)" >> $log
go test -vet=off -count=1 -timeout 10m -run "$(grep -o 'func Test[A-Za-z0-9_]*' $sd/demo_test.go | sed 's/func //' | paste -sd'|')" . 2>&1 | grep -E "^(--- FAIL|--- PASS|ok|FAIL|panic)" >> $log
cd /; git -C /repo worktree remove --force $wt
echo "DONE" >> $log
