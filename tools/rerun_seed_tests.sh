#!/bin/sh
# usage: tools/rerun_seed_tests.sh <seed-dir> <name> <test-regex> <count>
sd=$1; name=$2; re=$3; n=${4:-5}
export GOFLAGS=-mod=mod GOPROXY=off
wt=/tmp/rerun-$name
rm -rf $wt; git -C /repo worktree prune; git -C /repo worktree add -q --detach $wt HEAD || exit 2
cd $wt && git apply $sd/patch.diff
echo "== with patch: $re x$n" >> $sd/confirm.log
go test -vet=off -count=$n -timeout 20m -run "$re" . 2>&1 | grep -E "^(--- FAIL|ok|FAIL|panic)" >> $sd/confirm.log
git checkout -q -- .
echo "== pristine: $re x$n" >> $sd/confirm.log
go test -vet=off -count=$n -timeout 20m -run "$re" . 2>&1 | grep -E "^(--- FAIL|ok|FAIL|panic)" >> $sd/confirm.log
cd /; git -C /repo worktree remove --force $wt
