#!/usr/bin/env python3
"""Regenerate /verif/MANIFEST.json from props/*.json and tools/manifest_meta.json."""
import json, glob, os, subprocess
root = os.path.dirname(os.path.dirname(os.path.abspath(__file__)))
meta = json.load(open(os.path.join(root, "tools", "manifest_meta.json")))
props = {}
for f in sorted(glob.glob(os.path.join(root, "props", "*.json"))):
    p = json.load(open(f))
    props[p["property"]] = p
ids = [json.loads(l)["id"] for l in open(os.path.join(root, "properties.jsonl"))]
try:
    commits = subprocess.check_output(["git", "-C", "/repo", "log", "--format=%H", "--", "contracts_verif.go"], text=True).split()
except Exception:
    commits = []
checks, na = [], []
for i in ids:
    if i in props:
        m = meta["claimed"].get(i, {})
        checks.append({
            "property_id": i,
            "quick_cmd": "./check %s quick" % i,
            "thorough_cmd": "./check %s thorough" % i,
            "evidence_file": "evidence/%s.json" % i,
            "replay_cmd_template": "./check --replay {path}",
            "engine": "govc",
            "level_claimed": {"category": "proof", "text": m.get("text", props[i]["level_note"]), "design_ref": m.get("design_ref", "DESIGN.md section 6, " + i)},
            "level_note": props[i]["level_note"],
            "technique": m.get("technique", "contract-based deductive verification: weakest-precondition VCs generated from go/ssa of the real functions, contracts in contracts_verif.go, discharged by z3/cvc5"),
        })
    else:
        na.append({"property_id": i, "reason": meta["not_applicable"].get(i, "not reached: no contract within the verifier's reach decides this property yet (see DESIGN.md section 6)")})
man = {
    "version": 1,
    "setup_cmd": "cd /verif/govc && GOFLAGS=-mod=mod GOPROXY=off go build -o ../bin/govc .",
    "hooks": {
        "guard": "verif",
        "enable": "-tags verif (the only hook is the comment-only file contracts_verif.go; it adds no code)",
        "baseline_off_cmd": "cd /repo && go test -json -vet=off -count=1 -timeout 25m ./...",
        "source_commits": list(reversed(commits)),
        "add_only": True,
    },
    "engines": [{"name": "govc", "path": "govc/", "serves_properties": sorted(props), "kind_free_text": "VC generator over go/ssa for contract-annotated Go functions; SMT-LIB2 obligations discharged by z3 5.1.0, z3 4.8.12, cvc5 1.0.3"}],
    "checks": checks,
    "not_applicable": na,
    "notes": meta.get("notes", ""),
}
json.dump(man, open(os.path.join(root, "MANIFEST.json"), "w"), indent=1)
print("MANIFEST.json: %d checks, %d not applicable" % (len(checks), len(na)))
