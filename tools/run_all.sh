#!/bin/sh
# run every claimed check (quick tier) against /repo and report; exit 1 if any check did not exit 0
cd "$(dirname "$0")/.." || exit 2
rc=0
for f in props/*.json; do
  id=$(basename $f .json)
  out=$(./check $id ${1:-quick}); r=$?
  echo "$out" | grep -E "^(VIOLATION|UNDECIDED|SELFTEST-REGRESSION)"
  echo "$out" | tail -1
  [ $r -ne 0 ] && { rc=1; echo "CHECK-FAILED $id exit=$r"; }
done
exit $rc
