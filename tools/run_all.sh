#!/bin/sh
# run every claimed check (quick tier) against /repo and report
cd "$(dirname "$0")/.." || exit 2
rc=0
for f in props/*.json; do
  id=$(basename $f .json)
  ./check $id ${1:-quick} | tail -4
  [ $? -ne 0 ] && rc=1
done
exit $rc
