package main

import (
	"fmt"
	"math/big"
	"os"
	"regexp"
	"strconv"
	"strings"
	"unicode"
)

// ---------------------------------------------------------------------------
// Contract file: //@ lines in a comment-only Go file.

type Clause struct {
	When    Expr // case specialisation: obligation generated from a run with this condition assumed (and folded) at entry
	WhenSrc string
	From    []string // derived clause: proved from these other ensures clauses alone (no code)
	Label   string
	E       Expr
	Src     string
	OnPanic bool
	Line    int
}

type QVar struct {
	Name string
	Type string // Go type expression, resolved lazily
}

type FuncContract struct {
	Kind        string // "func", "interface", "extern"
	Key         string // "(*commitment).recalculate", "LogStore.GetLog", "sort.Sort"
	ParamNames  []string
	Requires    []Clause
	Ensures     []Clause
	Modifies    []Expr
	ModSrc      []string
	ModDeclared bool
	NoInfer     bool // no inferred loop-frame candidates (big select loops: only local call-site obligations are wanted)
	Safe        bool
	Trusted     bool // contract assumed; body not verified
	TrustReason string
	Loops       map[int][]Clause
	LoopEntry   map[int][]Clause    // checked when the loop is entered only (not an invariant)
	LocalOnly   bool                // callee preconditions are assumed, not checked; no call/return covers
	LoopStep    map[int][]Clause    // per-iteration obligations: old(e) = value at the head of the current iteration
	CallAsserts map[string][]Clause // key "callee#k"
	Crash       []Clause            // crash invariants: asserted after every durable write
	Observe     []Clause            // named entry-state expressions reported in counterexample models
	Line        int
	Fresh       []string // result names declared freshly allocated
}

type SpecFunc struct {
	Name   string
	Params []QVar
	ResT   string
	Body   Expr
	Src    string
	Line   int
}

type Model struct {
	Iface  string
	Fields []QVar
}

type Lemma struct {
	Name     string
	Params   []QVar
	Requires []Clause
	Ensures  []Clause
	Line     int
}

type Axiom struct {
	Name string
	E    Expr
	Src  string
	Line int
}

type UFDecl struct {
	Name   string
	Params []string
	ResT   string
}

type Contracts struct {
	Addressable []string          // "T.f" declarations
	Ghosts      map[string]string // global ghost variables: name -> Go type
	UFs         map[string]*UFDecl
	Funcs       map[string]*FuncContract
	Specs       map[string]*SpecFunc
	Models      map[string]*Model
	Lemmas      map[string]*Lemma
	Axioms      []*Axiom
	SortOrders  map[string]string // slice type -> spec function "less(a, b)" (assumed contract of sort.Sort for that type)
	Order       []string
	Text        string
}

var headerKW = map[string]bool{"addressable": true, "ghostvar": true, "uf": true, "func": true, "interface": true, "extern": true, "model": true, "spec": true, "lemma": true, "axiom": true, "sortorder": true}
var clauseKW = map[string]bool{"noinference": true, "localonly": true, "observe": true, "requires": true, "ensures": true, "modifies": true, "safe": true, "trusted": true, "loop": true, "at": true, "crash_invariant": true, "fresh": true}

func isBareWord(t string) bool {
	for _, c := range t {
		if !(c == '_' || c >= 'a' && c <= 'z' || c >= 'A' && c <= 'Z' || c >= '0' && c <= '9') {
			return false
		}
	}
	return t != "" && t != "true" && t != "false" && t != "nil"
}

type rawItem struct {
	line int
	text string
}

func parseContractsFile(path string) (*Contracts, error) {
	data, err := os.ReadFile(path)
	if err != nil {
		return nil, err
	}
	return parseContracts(string(data))
}

func parseContracts(text string) (c *Contracts, err error) {
	c = &Contracts{Ghosts: map[string]string{}, UFs: map[string]*UFDecl{}, Funcs: map[string]*FuncContract{}, Specs: map[string]*SpecFunc{}, Models: map[string]*Model{}, Lemmas: map[string]*Lemma{}, SortOrders: map[string]string{}, Text: text}
	defer func() {
		if r := recover(); r != nil {
			if pe, ok := r.(parseErr); ok {
				err = fmt.Errorf("contracts: %s", string(pe))
				return
			}
			panic(r)
		}
	}()
	// gather //@ lines; merge continuation lines
	var items []rawItem
	for i, ln := range strings.Split(text, "\n") {
		t := strings.TrimSpace(ln)
		if !strings.HasPrefix(t, "//@") {
			continue
		}
		t = strings.TrimSpace(t[3:])
		if j := strings.Index(t, " -- "); j >= 0 {
			t = strings.TrimSpace(t[:j])
		}
		if strings.HasPrefix(t, "-- ") || t == "--" {
			continue
		}
		if t == "" {
			continue
		}
		first := t
		if j := strings.IndexAny(t, " \t"); j >= 0 {
			first = t[:j]
		}
		if headerKW[first] || clauseKW[first] {
			items = append(items, rawItem{i + 1, t})
		} else {
			if len(items) == 0 {
				panic(parseErr(fmt.Sprintf("line %d: continuation without a clause", i+1)))
			}
			if first == t && isBareWord(t) {
				// a single bare identifier on its own line is a (misspelt) clause keyword, not a continuation
				panic(parseErr(fmt.Sprintf("line %d: unknown clause keyword %q", i+1, t)))
			}
			items[len(items)-1].text += " " + t
		}
	}
	var cur *FuncContract
	var curLemma *Lemma
	for _, it := range items {
		kw, rest := splitFirst(it.text)
		switch kw {
		case "func", "interface", "extern":
			fc := &FuncContract{Kind: kw, LoopEntry: map[int][]Clause{}, LoopStep: map[int][]Clause{}, Loops: map[int][]Clause{}, CallAsserts: map[string][]Clause{}, Line: it.line}
			parseFuncHeader(fc, rest, it.line)
			if _, dup := c.Funcs[fc.Key]; dup {
				panic(parseErr(fmt.Sprintf("line %d: duplicate contract for %s", it.line, fc.Key)))
			}
			c.Funcs[fc.Key] = fc
			c.Order = append(c.Order, fc.Key)
			cur, curLemma = fc, nil
		case "addressable":
			c.Addressable = append(c.Addressable, strings.TrimSpace(rest))
			cur, curLemma = nil, nil
		case "sortorder":
			n, t := splitFirst(rest)
			if n == "" || t == "" {
				panic(parseErr(fmt.Sprintf("line %d: sortorder <slice type> <spec function>", it.line)))
			}
			c.SortOrders[n] = strings.TrimSpace(t)
			cur, curLemma = nil, nil
		case "ghostvar":
			n, t := splitFirst(rest)
			if n == "" || t == "" {
				panic(parseErr(fmt.Sprintf("line %d: ghostvar name type", it.line)))
			}
			c.Ghosts[n] = t
			cur, curLemma = nil, nil
		case "uf":
			m := ufRe.FindStringSubmatch(rest)
			if m == nil {
				panic(parseErr(fmt.Sprintf("line %d: bad uf declaration", it.line)))
			}
			u := &UFDecl{Name: m[1], ResT: strings.TrimSpace(m[3])}
			for _, p := range splitTop(m[2], ',') {
				if strings.TrimSpace(p) != "" {
					u.Params = append(u.Params, strings.TrimSpace(p))
				}
			}
			c.UFs[u.Name] = u
			cur, curLemma = nil, nil
		case "model":
			m := parseModel(rest, it.line)
			c.Models[m.Iface] = m
			cur, curLemma = nil, nil
		case "spec":
			sf := parseSpec(rest, it.line)
			c.Specs[sf.Name] = sf
			cur, curLemma = nil, nil
		case "lemma":
			l := parseLemmaHeader(rest, it.line)
			c.Lemmas[l.Name] = l
			cur, curLemma = nil, l
		case "axiom":
			lab, src := splitLabel(rest)
			c.Axioms = append(c.Axioms, &Axiom{Name: lab, E: parseExpr(src, it.line), Src: src, Line: it.line})
			cur, curLemma = nil, nil
		case "requires", "ensures", "crash_invariant":
			var whenSrc string
			var from []string
			for {
				if m := whenRe.FindStringSubmatch(rest); m != nil {
					whenSrc = m[2]
					rest = m[1] + " " + m[3]
					continue
				}
				if m := fromRe.FindStringSubmatch(rest); m != nil {
					for _, f := range strings.Split(m[2], ",") {
						from = append(from, strings.TrimSpace(f))
					}
					rest = m[1] + " " + m[3]
					continue
				}
				break
			}
			rest = attrEndRe.ReplaceAllString(rest, "$1:")
			lab, src := splitLabel(rest)
			cl := Clause{Label: lab, Src: src, Line: it.line, From: from}
			if whenSrc != "" {
				cl.When = parseExpr(whenSrc, it.line)
				cl.WhenSrc = whenSrc
			}
			if strings.HasSuffix(src, " on_panic") {
				cl.OnPanic = true
				src = strings.TrimSuffix(src, " on_panic")
			}
			cl.E = parseExpr(src, it.line)
			if cl.Label == "" {
				cl.Label = fmt.Sprintf("L%d", it.line)
			}
			if curLemma != nil {
				if kw == "requires" {
					curLemma.Requires = append(curLemma.Requires, cl)
				} else {
					curLemma.Ensures = append(curLemma.Ensures, cl)
				}
				continue
			}
			if cur == nil {
				panic(parseErr(fmt.Sprintf("line %d: clause outside a contract", it.line)))
			}
			switch kw {
			case "requires":
				cur.Requires = append(cur.Requires, cl)
			case "ensures":
				cur.Ensures = append(cur.Ensures, cl)
			default:
				cur.Crash = append(cur.Crash, cl)
			}
		case "observe":
			lab, src := splitLabel(rest)
			if cur == nil || lab == "" {
				panic(parseErr(fmt.Sprintf("line %d: observe needs 'name: expr' inside a contract", it.line)))
			}
			cur.Observe = append(cur.Observe, Clause{Label: lab, Src: src, E: parseExpr(src, it.line), Line: it.line})
		case "modifies":
			if cur == nil {
				panic(parseErr(fmt.Sprintf("line %d: modifies outside a contract", it.line)))
			}
			cur.ModDeclared = true
			for _, part := range splitTop(rest, ',') {
				part = strings.TrimSpace(part)
				if part == "" || part == "nothing" {
					continue
				}
				cur.Modifies = append(cur.Modifies, parseExpr(part, it.line))
				cur.ModSrc = append(cur.ModSrc, part)
			}
		case "noinference":
			cur.NoInfer = true
		case "localonly":
			cur.LocalOnly = true
		case "safe":
			cur.Safe = true
		case "trusted":
			cur.Trusted = true
			cur.TrustReason = rest
		case "fresh":
			for _, part := range splitTop(rest, ',') {
				cur.Fresh = append(cur.Fresh, strings.TrimSpace(part))
			}
		case "loop":
			// loop N invariant label: expr
			f := strings.Fields(rest)
			if len(f) < 3 || (f[1] != "invariant" && f[1] != "entry" && f[1] != "step") {
				panic(parseErr(fmt.Sprintf("line %d: expected 'loop N invariant|entry|step label: expr'", it.line)))
			}
			n, e := strconv.Atoi(f[0])
			if e != nil {
				panic(parseErr(fmt.Sprintf("line %d: bad loop ordinal", it.line)))
			}
			if f[1] == "step" {
				r := strings.TrimSpace(rest[strings.Index(rest, "step")+len("step"):])
				lab, src := splitLabel(r)
				if lab == "" {
					lab = fmt.Sprintf("L%d", it.line)
				}
				cur.LoopStep[n] = append(cur.LoopStep[n], Clause{Label: lab, Src: src, E: parseExpr(src, it.line), Line: it.line})
				continue
			}
			if f[1] == "entry" {
				r := strings.TrimSpace(rest[strings.Index(rest, "entry")+len("entry"):])
				lab, src := splitLabel(r)
				if lab == "" {
					lab = fmt.Sprintf("L%d", it.line)
				}
				cur.LoopEntry[n] = append(cur.LoopEntry[n], Clause{Label: lab, Src: src, E: parseExpr(src, it.line), Line: it.line})
				continue
			}
			r := strings.TrimSpace(rest[strings.Index(rest, "invariant")+len("invariant"):])
			lab, src := splitLabel(r)
			if lab == "" {
				lab = fmt.Sprintf("L%d", it.line)
			}
			cur.Loops[n] = append(cur.Loops[n], Clause{Label: lab, Src: src, E: parseExpr(src, it.line), Line: it.line})
		case "at":
			// at call callee#k assert label: expr
			f := strings.Fields(rest)
			if len(f) < 4 || f[0] != "call" || f[2] != "assert" {
				panic(parseErr(fmt.Sprintf("line %d: expected 'at call callee#k assert label: expr'", it.line)))
			}
			r := strings.TrimSpace(rest[strings.Index(rest, " assert ")+len(" assert "):])
			lab, src := splitLabel(r)
			if lab == "" {
				lab = fmt.Sprintf("L%d", it.line)
			}
			cur.CallAsserts[f[1]] = append(cur.CallAsserts[f[1]], Clause{Label: lab, Src: src, E: parseExpr(src, it.line), Line: it.line})
		}
	}
	return c, nil
}

func splitFirst(s string) (string, string) {
	s = strings.TrimSpace(s)
	if j := strings.IndexAny(s, " \t"); j >= 0 {
		return s[:j], strings.TrimSpace(s[j+1:])
	}
	return s, ""
}

var whenRe = regexp.MustCompile(`^(\w+)\s*\[when\s+([^\]]*)\]\s*(.*)$`)
var fromRe = regexp.MustCompile(`^(\w+)\s*\[from\s+([^\]]*)\]\s*(.*)$`)
var attrEndRe = regexp.MustCompile(`^(\w+)\s+:`)

var labelRe = regexp.MustCompile(`^([A-Za-z_][A-Za-z0-9_]*)\s*:([^:].*)$`)

func splitLabel(s string) (string, string) {
	s = strings.TrimSpace(s)
	if m := labelRe.FindStringSubmatch(s); m != nil {
		return m[1], strings.TrimSpace(m[2])
	}
	return "", s
}

// splitTop splits at sep outside of brackets.
func splitTop(s string, sep rune) []string {
	var out []string
	d := 0
	last := 0
	for i, r := range s {
		switch r {
		case '(', '[', '{':
			d++
		case ')', ']', '}':
			d--
		default:
			if r == sep && d == 0 {
				out = append(out, s[last:i])
				last = i + 1
			}
		}
	}
	out = append(out, s[last:])
	return out
}

var funcHdrRe = regexp.MustCompile(`^(?:\(\s*(\w+)\s+(\*?)\s*(\w+)\s*\)\s*)?([\w.$]+)\s*(?:\((.*)\))?.*$`)

func parseFuncHeader(fc *FuncContract, rest string, line int) {
	if fc.Kind == "extern" {
		// extern keys are the callee's full name, e.g. os.Rename(a, b) or (*os.File).Sync(f)
		rest = strings.TrimSpace(rest)
		if i := strings.LastIndex(rest, "("); i > 0 && strings.HasSuffix(rest, ")") {
			fc.Key = strings.TrimSpace(rest[:i])
			for _, p := range splitTop(rest[i+1:len(rest)-1], ',') {
				f := strings.Fields(strings.TrimSpace(p))
				if len(f) > 0 {
					fc.ParamNames = append(fc.ParamNames, f[0])
				}
			}
			return
		}
		fc.Key = rest
		return
	}
	m := funcHdrRe.FindStringSubmatch(rest)
	if m == nil {
		panic(parseErr(fmt.Sprintf("line %d: bad function header %q", line, rest)))
	}
	name := m[4]
	if m[3] != "" {
		if m[2] == "*" {
			fc.Key = "(*" + m[3] + ")." + name
		} else {
			fc.Key = "(" + m[3] + ")." + name
		}
	} else {
		fc.Key = name
	}
	if m[5] != "" {
		for _, p := range splitTop(m[5], ',') {
			f := strings.Fields(strings.TrimSpace(p))
			if len(f) > 0 {
				fc.ParamNames = append(fc.ParamNames, f[0])
			}
		}
	}
}

func parseModel(rest string, line int) *Model {
	i := strings.Index(rest, "{")
	j := strings.LastIndex(rest, "}")
	if i < 0 || j < i {
		panic(parseErr(fmt.Sprintf("line %d: bad model", line)))
	}
	m := &Model{Iface: strings.TrimSpace(rest[:i])}
	for _, f := range splitTop(rest[i+1:j], ';') {
		f = strings.TrimSpace(f)
		if f == "" {
			continue
		}
		n, t := splitFirst(f)
		m.Fields = append(m.Fields, QVar{n, t})
	}
	return m
}

func parseParams(s string, line int) []QVar {
	var out []QVar
	for _, p := range splitTop(s, ',') {
		p = strings.TrimSpace(p)
		if p == "" {
			continue
		}
		n, t := splitFirst(p)
		out = append(out, QVar{n, t})
	}
	return out
}

var ufRe = regexp.MustCompile(`^(\w+)\s*\((.*)\)\s*(.+)$`)
var specRe = regexp.MustCompile(`^func\s+(\w+)\s*\((.*?)\)\s*([^=]+?)\s*=\s*(.*)$`)

func parseSpec(rest string, line int) *SpecFunc {
	m := specRe.FindStringSubmatch(rest)
	if m == nil {
		panic(parseErr(fmt.Sprintf("line %d: bad spec func: %q", line, rest)))
	}
	return &SpecFunc{Name: m[1], Params: parseParams(m[2], line), ResT: strings.TrimSpace(m[3]), Body: parseExpr(m[4], line), Src: m[4], Line: line}
}

var lemmaRe = regexp.MustCompile(`^(\w+)\s*\((.*)\)\s*$`)

func parseLemmaHeader(rest string, line int) *Lemma {
	m := lemmaRe.FindStringSubmatch(rest)
	if m == nil {
		panic(parseErr(fmt.Sprintf("line %d: bad lemma header", line)))
	}
	return &Lemma{Name: m[1], Params: parseParams(m[2], line), Line: line}
}

// ---------------------------------------------------------------------------
// Expressions

type Expr interface{}

type EIdent struct{ Name string }
type EInt struct{ V *big.Int }
type EStr struct{ S string }
type EUnary struct {
	Op string
	X  Expr
}
type EBinary struct {
	Op   string
	X, Y Expr
}
type ECall struct {
	Fn   string
	Args []Expr
}
type EIndex struct{ X, I Expr }
type ESliceE struct{ X, Lo, Hi Expr }
type ESel struct {
	X Expr
	F string
}
type EQuant struct {
	Forall bool
	Vars   []QVar
	Body   Expr
}
type EHash struct {
	Name string
	Args []Expr
}
type EStarAll struct{ X Expr } // x[*] in modifies

type parseErr string

type ctok struct {
	kind string // "id","int","str","op","eof"
	s    string
}

type lexer struct {
	toks []ctok
	p    int
	line int
	src  string
}

func lex(src string, line int) *lexer {
	lx := &lexer{line: line, src: src}
	rs := []rune(src)
	i := 0
	for i < len(rs) {
		r := rs[i]
		switch {
		case unicode.IsSpace(r):
			i++
		case unicode.IsLetter(r) || r == '_':
			j := i
			for j < len(rs) && (unicode.IsLetter(rs[j]) || unicode.IsDigit(rs[j]) || rs[j] == '_') {
				j++
			}
			lx.toks = append(lx.toks, ctok{"id", string(rs[i:j])})
			i = j
		case unicode.IsDigit(r):
			j := i
			for j < len(rs) && (unicode.IsDigit(rs[j]) || rs[j] == '_' || rs[j] == 'x' || (rs[j] >= 'a' && rs[j] <= 'f') || (rs[j] >= 'A' && rs[j] <= 'F')) {
				j++
			}
			lx.toks = append(lx.toks, ctok{"int", string(rs[i:j])})
			i = j
		case r == '"':
			j := i + 1
			for j < len(rs) && rs[j] != '"' {
				if rs[j] == '\\' {
					j++
				}
				j++
			}
			s, err := strconv.Unquote(string(rs[i : j+1]))
			if err != nil {
				panic(parseErr(fmt.Sprintf("line %d: bad string literal in %q", line, src)))
			}
			lx.toks = append(lx.toks, ctok{"str", s})
			i = j + 1
		case r == '#':
			j := i + 1
			for j < len(rs) && (unicode.IsLetter(rs[j]) || unicode.IsDigit(rs[j]) || rs[j] == '_') {
				j++
			}
			lx.toks = append(lx.toks, ctok{"hash", string(rs[i+1 : j])})
			i = j
		default:
			ops := []string{"<==>", "==>", "::", "==", "!=", "<=", ">=", "&&", "||", "<<", ">>", "[*]"}
			matched := false
			for _, op := range ops {
				if strings.HasPrefix(string(rs[i:]), op) {
					lx.toks = append(lx.toks, ctok{"op", op})
					i += len([]rune(op))
					matched = true
					break
				}
			}
			if !matched {
				if strings.ContainsRune("+-*/%<>!()[].,:&|^{}", r) {
					lx.toks = append(lx.toks, ctok{"op", string(r)})
					i++
				} else {
					panic(parseErr(fmt.Sprintf("line %d: unexpected character %q in %q", line, r, src)))
				}
			}
		}
	}
	lx.toks = append(lx.toks, ctok{"eof", ""})
	return lx
}

func (lx *lexer) peek() ctok { return lx.toks[lx.p] }
func (lx *lexer) next() ctok {
	t := lx.toks[lx.p]
	if lx.p < len(lx.toks)-1 {
		lx.p++
	}
	return t
}
func (lx *lexer) isOp(s string) bool {
	t := lx.peek()
	return t.kind == "op" && t.s == s
}
func (lx *lexer) expectOp(s string) {
	if !lx.isOp(s) {
		lx.fail("expected %q, got %q", s, lx.peek().s)
	}
	lx.next()
}
func (lx *lexer) fail(f string, a ...interface{}) {
	panic(parseErr(fmt.Sprintf("line %d: %s in %q", lx.line, fmt.Sprintf(f, a...), lx.src)))
}

func parseExpr(src string, line int) Expr {
	lx := lex(src, line)
	e := lx.parse(0)
	if lx.peek().kind != "eof" {
		lx.fail("trailing input at %q", lx.peek().s)
	}
	return e
}

var binPrec = map[string]int{
	"<==>": 1, "==>": 2, "||": 3, "&&": 4,
	"==": 5, "!=": 5, "<": 5, "<=": 5, ">": 5, ">=": 5,
	"+": 6, "-": 6, "|": 6, "^": 6,
	"*": 7, "/": 7, "%": 7, "&": 7, "<<": 7, ">>": 7,
}

func (lx *lexer) parse(minPrec int) Expr {
	left := lx.parseUnary()
	for {
		t := lx.peek()
		if t.kind != "op" {
			return left
		}
		p, ok := binPrec[t.s]
		if !ok || p < minPrec {
			return left
		}
		lx.next()
		var right Expr
		if t.s == "==>" {
			right = lx.parse(p) // right assoc
		} else {
			right = lx.parse(p + 1)
		}
		left = &EBinary{t.s, left, right}
	}
}

func (lx *lexer) parseUnary() Expr {
	t := lx.peek()
	if t.kind == "op" && (t.s == "!" || t.s == "-" || t.s == "*") {
		lx.next()
		x := lx.parseUnary()
		return &EUnary{t.s, x}
	}
	return lx.parsePostfix(lx.parsePrimary())
}

func (lx *lexer) parsePrimary() Expr {
	t := lx.next()
	switch t.kind {
	case "int":
		v, ok := new(big.Int).SetString(strings.ReplaceAll(t.s, "_", ""), 0)
		if !ok {
			lx.fail("bad integer %q", t.s)
		}
		return &EInt{v}
	case "str":
		return &EStr{t.s}
	case "hash":
		h := &EHash{Name: t.s}
		if lx.isOp("(") {
			lx.next()
			h.Args = lx.parseArgs()
		}
		return h
	case "id":
		if t.s == "forall" || t.s == "exists" {
			q := &EQuant{Forall: t.s == "forall"}
			for {
				n := lx.next()
				if n.kind != "id" {
					lx.fail("expected bound variable name")
				}
				// type: raw tokens up to ',' or '::' at depth 0
				var ty strings.Builder
				d := 0
				for {
					p := lx.peek()
					if p.kind == "eof" {
						lx.fail("unterminated quantifier")
					}
					if d == 0 && p.kind == "op" && (p.s == "," || p.s == "::") {
						break
					}
					if p.kind == "op" && (p.s == "[" || p.s == "(") {
						d++
					}
					if p.kind == "op" && (p.s == "]" || p.s == ")") {
						d--
					}
					ty.WriteString(p.s)
					lx.next()
				}
				q.Vars = append(q.Vars, QVar{n.s, ty.String()})
				if lx.isOp(",") {
					lx.next()
					continue
				}
				lx.expectOp("::")
				break
			}
			q.Body = lx.parse(0)
			return q
		}
		if lx.isOp("(") {
			lx.next()
			args := lx.parseArgs()
			return &ECall{t.s, args}
		}
		return &EIdent{t.s}
	case "op":
		if t.s == "(" {
			e := lx.parse(0)
			lx.expectOp(")")
			return e
		}
	}
	lx.fail("unexpected token %q", t.s)
	return nil
}

func (lx *lexer) parseArgs() []Expr {
	var args []Expr
	if lx.isOp(")") {
		lx.next()
		return args
	}
	for {
		args = append(args, lx.parse(0))
		if lx.isOp(",") {
			lx.next()
			continue
		}
		lx.expectOp(")")
		return args
	}
}

func (lx *lexer) parsePostfix(e Expr) Expr {
	for {
		switch {
		case lx.isOp("."):
			lx.next()
			t := lx.next()
			if t.kind != "id" {
				lx.fail("expected field name after '.'")
			}
			if lx.isOp("(") { // method-style call x.f(args) => f(x, args)
				lx.next()
				args := lx.parseArgs()
				e = &ECall{t.s, append([]Expr{e}, args...)}
			} else {
				e = &ESel{e, t.s}
			}
		case lx.isOp("[*]"):
			lx.next()
			e = &EStarAll{e}
		case lx.isOp("["):
			lx.next()
			var lo, hi Expr
			if !lx.isOp(":") {
				lo = lx.parse(0)
			}
			if lx.isOp(":") {
				lx.next()
				if !lx.isOp("]") {
					hi = lx.parse(0)
				}
				lx.expectOp("]")
				e = &ESliceE{e, lo, hi}
			} else {
				lx.expectOp("]")
				e = &EIndex{e, lo}
			}
		default:
			return e
		}
	}
}
