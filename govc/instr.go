package main

import (
	"fmt"
	"go/constant"
	"go/token"
	"go/types"
	"math/big"
	"strings"

	"golang.org/x/tools/go/ssa"
)

func (fr *Frame) val(v ssa.Value) Val {
	ex := fr.ex
	switch c := v.(type) {
	case *ssa.Const:
		return ex.constVal(c)
	case *ssa.Global:
		et := c.Type().(*types.Pointer).Elem()
		name := c.Name()
		if c.Pkg != ex.prog.SSA {
			name = c.Pkg.Pkg.Name() + "." + name
		}
		return Val{K: VPtr, P: &Ptr{Root: "global", GName: name, Base: et, Elem: et}}
	case *ssa.Function:
		return Val{K: VFunc, Fn: c}
	case *ssa.Builtin:
		return Val{K: VFunc}
	}
	if x, ok := fr.vals[v]; ok {
		return x
	}
	panic(fmt.Sprintf("internal: no value for %s in %s", describe(v), fr.fn.Name()))
}

func (ex *Exec) constVal(c *ssa.Const) Val {
	t := c.Type()
	if c.Value == nil {
		return zeroVal(t)
	}
	switch c.Value.Kind() {
	case constant.Bool:
		if constant.BoolVal(c.Value) {
			return vBool("true")
		}
		return vBool("false")
	case constant.Int:
		v, _ := new(big.Int).SetString(c.Value.ExactString(), 10)
		if b, ok := t.Underlying().(*types.Basic); ok && b.Info()&types.IsFloat != 0 {
			return vInt(mkApp(ex.sc.DeclareFun("floatconst", []Sort{SInt}, SInt), intLit(v)))
		}
		return vInt(intLit(v))
	case constant.String:
		return vInt(ex.strLit(constant.StringVal(c.Value)))
	case constant.Float:
		n := len(ex.strs)
		ex.strs["float:"+c.Value.ExactString()] = n
		return vInt(mkApp(ex.sc.DeclareFun("floatconst", []Sort{SInt}, SInt), fmt.Sprintf("%d", 1000000+n)))
	}
	panic(oos("constant %s", c))
}

// ---- integer arithmetic with Go's wrap-around ------------------------------------

func typeBits(t types.Type) (uint, bool) {
	b, ok := t.Underlying().(*types.Basic)
	if !ok {
		return 64, false
	}
	return intBits(b)
}

// wrap1 normalises a value that is at most one modulus out of range.
func wrap1(t types.Type, s string) string {
	bits, signed := typeBits(t)
	m := intLit(pow2(bits))
	if signed {
		mx := intLit(new(big.Int).Sub(pow2(bits-1), bigOne))
		mn := intLit(new(big.Int).Neg(pow2(bits - 1)))
		return fmt.Sprintf("(let ((s!w %s)) (ite (> s!w %s) (- s!w %s) (ite (< s!w %s) (+ s!w %s) s!w)))", s, mx, m, mn, m)
	}
	return fmt.Sprintf("(let ((s!w %s)) (ite (>= s!w %s) (- s!w %s) (ite (< s!w 0) (+ s!w %s) s!w)))", s, m, m, m)
}

// wrapMod normalises any integer into the range of t.
func wrapMod(t types.Type, s string) string {
	bits, signed := typeBits(t)
	m := intLit(pow2(bits))
	if signed {
		h := intLit(pow2(bits - 1))
		return fmt.Sprintf("(- (mod (+ %s %s) %s) %s)", s, h, m, h)
	}
	return mkApp("mod", s, m)
}

func isLit(t string) bool {
	if t == "" {
		return false
	}
	for _, c := range t {
		if c < '0' || c > '9' {
			return false
		}
	}
	return true
}

func (fr *Frame) binop(op token.Token, x, y Val, xt, rt types.Type, pos token.Pos) Val {
	ex := fr.ex
	// non-scalar equality
	if op == token.EQL || op == token.NEQ {
		var eq string
		switch {
		case x.K == VIface && y.K == VIface:
			eq = mkAnd(mkEq(x.Fs[0].T, y.Fs[0].T), mkEq(x.Fs[1].T, y.Fs[1].T))
		case x.K == VSlice || y.K == VSlice:
			// only comparison with nil is legal
			s := x
			if isZeroSlice(x) {
				s = y
			}
			eq = mkEq(s.Fs[0].T, "0")
		case x.K == VPtr && y.K == VPtr:
			eq = mkEq(ptrRef(x.P), ptrRef(y.P))
		case x.K == VFunc || y.K == VFunc:
			eq = "false"
		default:
			eq = valEq(x, y)
		}
		if op == token.NEQ {
			eq = mkNot(eq)
		}
		return vBool(eq)
	}
	if isStringType(xt) {
		lt := func(a, b string) string { return mkApp(ex.strLtFun(), a, b) }
		switch op {
		case token.LSS:
			return vBool(lt(x.T, y.T))
		case token.GTR:
			return vBool(lt(y.T, x.T))
		case token.LEQ:
			return vBool(mkNot(lt(y.T, x.T)))
		case token.GEQ:
			return vBool(mkNot(lt(x.T, y.T)))
		case token.ADD:
			f := ex.sc.DeclareFun("strcat", []Sort{SInt, SInt}, SInt)
			r := mkApp(f, x.T, y.T)
			fr.assume(mkEq(ex.strLen(r), mkApp("+", ex.strLen(x.T), ex.strLen(y.T))))
			return vInt(r)
		}
		panic(oos("string operator %s", op))
	}
	if b, ok := xt.Underlying().(*types.Basic); ok && b.Info()&types.IsFloat != 0 {
		f := ex.sc.DeclareFun("float"+sanitize(op.String()), []Sort{SInt, SInt}, SInt)
		if isBoolType(rt) {
			return vBool(mkEq(mkApp(f, x.T, y.T), "1"))
		}
		return vInt(mkApp(f, x.T, y.T))
	}
	if x.K == VBool {
		switch op {
		case token.AND, token.LAND:
			return vBool(mkAnd(x.T, y.T))
		case token.OR, token.LOR:
			return vBool(mkOr(x.T, y.T))
		}
		panic(oos("bool operator %s", op))
	}
	a, b := x.T, y.T
	switch op {
	case token.LSS:
		return vBool(mkApp("<", a, b))
	case token.LEQ:
		return vBool(mkApp("<=", a, b))
	case token.GTR:
		return vBool(mkApp(">", a, b))
	case token.GEQ:
		return vBool(mkApp(">=", a, b))
	case token.ADD:
		return vInt(wrap1(rt, mkApp("+", a, b)))
	case token.SUB:
		return vInt(wrap1(rt, mkApp("-", a, b)))
	case token.MUL:
		return vInt(wrapMod(rt, mkApp("*", a, b)))
	case token.QUO:
		fr.safety("div0", mkNot(mkEq(b, "0")), pos)
		_, signed := typeBits(rt)
		if !signed {
			return vInt(ex.udiv(a, b))
		}
		if !isLit(b) {
			return vInt(mkIte(mkAnd(mkApp(">=", a, "0"), mkApp(">", b, "0")), ex.udiv(a, b), mkApp(ex.sc.DeclareFun("sdiv", []Sort{SInt, SInt}, SInt), a, b)))
		}
		q := fmt.Sprintf("(let ((q!w (div (abs %s) (abs %s)))) (ite (= (>= %s 0) (> %s 0)) q!w (- q!w)))", a, b, a, b)
		return vInt(wrapMod(rt, q))
	case token.REM:
		fr.safety("div0", mkNot(mkEq(b, "0")), pos)
		_, signed := typeBits(rt)
		if !signed {
			return vInt(ex.umod(a, b))
		}
		if !isLit(b) {
			return vInt(mkIte(mkAnd(mkApp(">=", a, "0"), mkApp(">", b, "0")), ex.umod(a, b), mkApp(ex.sc.DeclareFun("smod", []Sort{SInt, SInt}, SInt), a, b)))
		}
		r := fmt.Sprintf("(let ((r!w (mod (abs %s) (abs %s)))) (ite (>= %s 0) r!w (- r!w)))", a, b, a)
		return vInt(r)
	case token.SHL:
		if isLit(b) {
			n, _ := new(big.Int).SetString(b, 10)
			if n.IsUint64() && n.Uint64() < 64 {
				return vInt(wrapMod(rt, mkApp("*", a, intLit(pow2(uint(n.Uint64()))))))
			}
		}
		f := ex.sc.DeclareFun("shl", []Sort{SInt, SInt}, SInt)
		return vInt(wrapMod(rt, mkApp(f, a, b)))
	case token.SHR:
		if isLit(b) {
			n, _ := new(big.Int).SetString(b, 10)
			if n.IsUint64() && n.Uint64() < 64 {
				return vInt(mkApp("div", a, intLit(pow2(uint(n.Uint64())))))
			}
		}
		f := ex.sc.DeclareFun("shr", []Sort{SInt, SInt}, SInt)
		return vInt(wrapMod(rt, mkApp(f, a, b)))
	case token.AND, token.OR, token.XOR, token.AND_NOT:
		f := ex.sc.DeclareFun("bit"+map[token.Token]string{token.AND: "and", token.OR: "or", token.XOR: "xor", token.AND_NOT: "andnot"}[op], []Sort{SInt, SInt}, SInt)
		return vInt(wrapMod(rt, mkApp(f, a, b)))
	}
	panic(oos("binary operator %s", op))
}

func isZeroSlice(v Val) bool {
	return v.K == VSlice && v.Fs[0].T == "0"
}

func (fr *Frame) convert(x Val, from, to types.Type) Val {
	ex := fr.ex
	fu, tu := from.Underlying(), to.Underlying()
	fb, fok := fu.(*types.Basic)
	tb, tok := tu.(*types.Basic)
	switch {
	case fok && tok && fb.Info()&types.IsInteger != 0 && tb.Info()&types.IsInteger != 0:
		fbits, fs := intBits(fb)
		tbits, ts := intBits(tb)
		if fs == ts && fbits <= tbits {
			return x
		}
		if !fs && ts && fbits < tbits {
			return x
		}
		return vInt(wrapMod(to, x.T))
	case fok && tok && fb.Info()&types.IsString != 0 && tb.Info()&types.IsString != 0:
		return x
	case fok && fb.Info()&types.IsString != 0:
		if sl, ok := tu.(*types.Slice); ok && isByte(sl.Elem()) {
			// []byte(s): fresh backing array whose content is s
			arr := fr.allocRef()
			ln := ex.strLen(x.T)
			v := Val{K: VSlice, Fs: []Val{vInt(arr), vInt("0"), vInt(ln), vInt(ln)}}
			fr.assume(mkEq(ex.bytesContent(fr.st, v), x.T))
			return v
		}
	case tok && tb.Info()&types.IsString != 0:
		if sl, ok := fu.(*types.Slice); ok && isByte(sl.Elem()) {
			c := ex.bytesContent(fr.st, x)
			fr.assume(mkEq(ex.strLen(c), x.Fs[2].T))
			return vInt(c)
		}
		if fok && fb.Info()&types.IsInteger != 0 {
			f := ex.sc.DeclareFun("str_of_int", []Sort{SInt}, SInt)
			return vInt(mkApp(f, x.T))
		}
	case fok && tok && (fb.Info()&types.IsFloat != 0 || tb.Info()&types.IsFloat != 0):
		f := ex.sc.DeclareFun("conv_"+sanitize(fb.Name())+"_"+sanitize(tb.Name()), []Sort{SInt}, SInt)
		r := mkApp(f, x.T)
		if tb.Info()&types.IsInteger != 0 {
			r = wrapMod(to, r)
		}
		return vInt(r)
	}
	if _, ok := tu.(*types.Pointer); ok {
		if x.K == VPtr {
			np := *x.P
			np.Elem = tu.(*types.Pointer).Elem()
			return Val{K: VPtr, P: &np}
		}
	}
	if tok && tb.Kind() == types.UnsafePointer {
		return x
	}
	panic(oos("conversion %s -> %s", from, to))
}

func isByte(t types.Type) bool {
	b, ok := t.Underlying().(*types.Basic)
	return ok && b.Kind() == types.Uint8
}

// allocRef returns a fresh reference and advances the allocation counter.
func (fr *Frame) allocRef() string {
	ex := fr.ex
	a := ex.get(fr.st, allocKey, SInt)
	n := ex.sc.Define("ref", SInt, mkApp("+", a, "1"))
	ex.set(fr.st, allocKey, SInt, n)
	return n
}

func (fr *Frame) loadFacts(t types.Type, v Val) {
	fr.assumeAll(fr.ex.valFacts(fr.st, t, v))
}

func (fr *Frame) nilCheck(p *Ptr, pos token.Pos) {
	if p.Root == "obj" {
		fr.safety("nil", mkNot(mkEq(p.Ref, "0")), pos)
	}
}

func (fr *Frame) exec(in ssa.Instruction) {
	ex := fr.ex
	switch in := in.(type) {
	case *ssa.DebugRef:
		return
	case *ssa.Alloc:
		et := in.Type().(*types.Pointer).Elem()
		ref := fr.allocRef()
		if at, ok := et.Underlying().(*types.Array); ok {
			// a local array is a backing array
			p := &Ptr{Root: "elem", Base: at.Elem(), Ref: ref, Idx: "0", Elem: et}
			fr.vals[in] = Val{K: VPtr, P: p}
			// zero-initialise the row
			for _, l := range ptrLocs(&Ptr{Root: "elem", Base: at.Elem(), Ref: ref, Idx: "0", Elem: at.Elem()}, at.Elem()) {
				a := ex.get(fr.st, l.Key, l.Sort)
				ex.set(fr.st, l.Key, l.Sort, mkStore(a, ref, constArray(SArr(SInt, l.Leaf.Sort))))
			}
			return
		}
		p := &Ptr{Root: "obj", Base: et, Ref: ref, Elem: et}
		fr.vals[in] = Val{K: VPtr, P: p}
		ex.store(fr.st, p, et, zeroVal(et))
	case *ssa.FieldAddr:
		x := fr.val(in.X)
		if x.K != VPtr {
			panic(oos("FieldAddr on %s", x))
		}
		fr.nilCheck(x.P, in.Pos())
		st := in.X.Type().Underlying().(*types.Pointer).Elem().Underlying().(*types.Struct)
		f := st.Field(in.Field)
		name := f.Name()
		if name == "_" {
			name = fmt.Sprintf("_%d", in.Field)
		}
		np := *x.P
		np.Path += name + "."
		np.Elem = f.Type()
		fr.vals[in] = Val{K: VPtr, P: canonPtr(&np, f.Type())}
	case *ssa.Field:
		x := fr.val(in.X)
		if x.K != VStruct {
			panic(oos("Field on %s", x))
		}
		fr.vals[in] = x.Fs[in.Field]
	case *ssa.IndexAddr:
		x := fr.val(in.X)
		i := fr.val(in.Index)
		switch xt := in.X.Type().Underlying().(type) {
		case *types.Slice:
			fr.safety("index", mkAnd(mkApp("<=", "0", i.T), mkApp("<", i.T, x.Fs[2].T)), in.Pos())
			idx := ex.sidx(x.Fs[1].T, i.T)
			fr.vals[in] = Val{K: VPtr, P: &Ptr{Root: "elem", Base: xt.Elem(), Ref: x.Fs[0].T, Idx: idx, Elem: xt.Elem()}}
		case *types.Pointer: // pointer to array
			at := xt.Elem().Underlying().(*types.Array)
			if x.K != VPtr || x.P.Root != "elem" {
				panic(oos("IndexAddr on array pointer of shape %s", x))
			}
			fr.safety("index", mkAnd(mkApp("<=", "0", i.T), mkApp("<", i.T, fmt.Sprint(at.Len()))), in.Pos())
			np := *x.P
			if np.Idx == "0" {
				np.Idx = i.T
			} else {
				np.Idx = mkApp("+", np.Idx, i.T)
			}
			np.Elem = at.Elem()
			fr.vals[in] = Val{K: VPtr, P: &np}
		default:
			panic(oos("IndexAddr on %s", in.X.Type()))
		}
	case *ssa.Index:
		x := fr.val(in.X)
		i := fr.val(in.Index)
		switch xt := in.X.Type().Underlying().(type) {
		case *types.Array:
			ts := make([]string, len(x.Fs))
			for k, a := range x.Fs {
				ts[k] = mkSelect(a.T, i.T)
			}
			v, _ := unflatten(xt.Elem(), ts)
			fr.vals[in] = v
		default:
			if isStringType(in.X.Type()) {
				f := ex.sc.DeclareFun("str_at", []Sort{SInt, SInt}, SInt)
				r := ex.sc.Define("ch", SInt, mkApp(f, x.T, i.T))
				fr.assume(mkAnd(mkApp("<=", "0", r), mkApp("<", r, "256")))
				fr.vals[in] = vInt(r)
				return
			}
			panic(oos("Index on %s", in.X.Type()))
		}
	case *ssa.UnOp:
		fr.unop(in)
	case *ssa.Store:
		a := fr.val(in.Addr)
		v := fr.val(in.Val)
		if a.K != VPtr {
			panic(oos("store through %s", a))
		}
		fr.nilCheck(a.P, in.Pos())
		et := in.Addr.Type().Underlying().(*types.Pointer).Elem()
		if v.K == VFunc {
			// function values stored to memory are opaque
			ex.abstr["function value stored to memory in "+fr.fn.Name()] = true
			v = vInt("0")
		}
		if v.K == VPtr && (v.P.Root != "obj" || v.P.Path != "") && !ptrHasRef(v.P) {
			// an interior pointer kept in a local cell (captured receiver etc.): remembered symbolically
			if a.P.Root == "obj" && strings.HasPrefix(a.P.Ref, "ref!") {
				if ex.cellPtr == nil {
					ex.cellPtr = map[string]Val{}
				}
				ex.cellPtr[a.P.Ref+"/"+a.P.Path] = v
				return
			}
			panic(oos("interior pointer stored to the heap in %s", fr.fn.Name()))
		}
		ex.store(fr.st, a.P, et, v)
	case *ssa.BinOp:
		x, y := fr.val(in.X), fr.val(in.Y)
		r := fr.binop(in.Op, x, y, in.X.Type(), in.Type(), in.Pos())
		fr.vals[in] = fr.define(in, r)
	case *ssa.Phi:
		return
	case *ssa.ChangeType:
		x := fr.val(in.X)
		if x.K == VPtr {
			np := *x.P
			np.Elem = in.Type().Underlying().(*types.Pointer).Elem()
			x = Val{K: VPtr, P: &np}
		}
		fr.vals[in] = x
	case *ssa.Convert:
		fr.vals[in] = fr.define(in, fr.convert(fr.val(in.X), in.X.Type(), in.Type()))
	case *ssa.ChangeInterface:
		fr.vals[in] = fr.val(in.X)
	case *ssa.MakeInterface:
		fr.vals[in] = fr.makeInterface(fr.val(in.X), in.X.Type())
	case *ssa.TypeAssert:
		fr.typeAssert(in)
	case *ssa.Extract:
		t := fr.val(in.Tuple)
		fr.vals[in] = t.Fs[in.Index]
	case *ssa.MakeSlice:
		ln, cp := fr.val(in.Len), fr.val(in.Cap)
		et := in.Type().Underlying().(*types.Slice).Elem()
		fr.safety("makeslice", mkAnd(mkApp("<=", "0", ln.T), mkApp("<=", ln.T, cp.T)), in.Pos())
		arr := fr.allocRef()
		for _, l := range ptrLocs(&Ptr{Root: "elem", Base: et, Ref: arr, Idx: "0", Elem: et}, et) {
			a := ex.get(fr.st, l.Key, l.Sort)
			ex.set(fr.st, l.Key, l.Sort, mkStore(a, arr, constArray(SArr(SInt, l.Leaf.Sort))))
		}
		fr.vals[in] = Val{K: VSlice, Fs: []Val{vInt(arr), vInt("0"), ln, cp}}
	case *ssa.Slice:
		fr.sliceOp(in)
	case *ssa.MakeMap:
		mt := in.Type().Underlying().(*types.Map)
		m := fr.allocRef()
		mk := mapHeap(mt)
		d := ex.get(fr.st, mk.dom, domSort)
		ex.set(fr.st, mk.dom, domSort, mkStore(d, m, "((as const (Array Int Bool)) false)"))
		c := ex.get(fr.st, mk.card, cardSort)
		ex.set(fr.st, mk.card, cardSort, mkStore(c, m, "0"))
		for _, l := range mk.vals {
			ex.get(fr.st, l.Key, l.Sort)
		}
		fr.vals[in] = vInt(m)
	case *ssa.MapUpdate:
		mt := in.Map.Type().Underlying().(*types.Map)
		m, k, v := fr.val(in.Map), fr.val(in.Key), fr.val(in.Value)
		fr.safety("nilmap", mkNot(mkEq(m.T, "0")), in.Pos())
		fr.mapUpdate(mt, m.T, scalarTerm(k), v)
	case *ssa.Lookup:
		x, k := fr.val(in.X), fr.val(in.Index)
		mt, ok := in.X.Type().Underlying().(*types.Map)
		if !ok {
			// string indexing
			f := ex.sc.DeclareFun("str_at", []Sort{SInt, SInt}, SInt)
			fr.vals[in] = vInt(mkApp(f, x.T, k.T))
			return
		}
		v, has := ex.mapLookup(fr.st, mt, x.T, scalarTerm(k))
		v = fr.defineT(in.Name(), mt.Elem(), v)
		fr.loadFacts(mt.Elem(), v)
		if in.CommaOk {
			fr.vals[in] = Val{K: VTuple, Fs: []Val{v, vBool(has)}}
		} else {
			fr.vals[in] = v
		}
	case *ssa.Range:
		fr.rangeInstr(in)
	case *ssa.Next:
		fr.nextInstr(in)
	case *ssa.MakeClosure:
		bs := make([]Val, len(in.Bindings))
		for i, b := range in.Bindings {
			bs[i] = fr.val(b)
		}
		fr.vals[in] = Val{K: VFunc, Fn: in.Fn.(*ssa.Function), Bs: bs}
	case *ssa.Call:
		r := fr.call(in, in.Common())
		fr.vals[in] = r
	case *ssa.Defer:
		c := in.Common()
		rec := &deferRec{instr: in, active: fr.cur, block: in.Block()}
		if !c.IsInvoke() {
			rec.fn = fr.val(c.Value)
		} else {
			rec.fn = fr.val(c.Value)
		}
		for _, a := range c.Args {
			rec.args = append(rec.args, fr.val(a))
		}
		if fr.inLoop(in.Block()) {
			ex.abstr["defer inside a loop in "+fr.fn.Name()] = true
			return
		}
		fr.defers = append(fr.defers, rec)
	case *ssa.RunDefers:
		fr.runDefers(in)
	case *ssa.Go:
		ex.abstr["go statement in "+fr.fn.Name()+": spawned goroutine not executed (A-SEQ)"] = true
	case *ssa.Return:
		rs := make([]Val, len(in.Results))
		for i, r := range in.Results {
			rs[i] = fr.val(r)
		}
		fr.rets = append(fr.rets, Exit{reach: fr.cur, st: fr.st.clone(), results: rs})
		if fr.top {
			for _, l := range fr.loops {
				if fr.headSt != nil && fr.headSt[l.head] != nil && l.head.Dominates(in.Block()) {
					fr.stepObligations(l, fr.headPhi[l.head], fr.cur, "step-exit", ex.prog.pos(in.Pos()), fr.localsSince(in, l))
				}
			}
			ex.retCount++
			if ex.fc != nil && ex.fc.LocalOnly {
				break
			}
			if co := ex.addOblig("cover", fmt.Sprintf("return-%d", ex.retCount), ex.prog.pos(in.Pos()), mkNot(fr.cur), "this return statement is reachable"); co != nil {
				co.ExpectSat = true
			}
		}
	case *ssa.Panic:
		fr.panics = append(fr.panics, Exit{reach: fr.cur, st: fr.st.clone()})
		fr.cur = "false"
	case *ssa.If, *ssa.Jump:
		return
	case *ssa.MakeChan:
		ch := fr.allocRef()
		sk := chSentKey(in.Type())
		s := ex.get(fr.st, sk, SArr(SInt, SInt))
		ex.set(fr.st, sk, SArr(SInt, SInt), mkStore(s, ch, "0"))
		c := ex.get(fr.st, "CH.cap", SArr(SInt, SInt))
		ex.set(fr.st, "CH.cap", SArr(SInt, SInt), mkStore(c, ch, fr.val(in.Size).T))
		fr.vals[in] = vInt(ch)
	case *ssa.Send:
		fr.chanSendT(fr.val(in.Chan), fr.val(in.X), "true", in.Chan.Type().Underlying().(*types.Chan).Elem())
		ex.abstr["channel send in "+fr.fn.Name()+": blocking not modelled"] = true
	case *ssa.Select:
		fr.selectInstr(in)
	case *ssa.SliceToArrayPointer, *ssa.MultiConvert:
		panic(oos("instruction %T", in))
	default:
		panic(oos("instruction %T", in))
	}
}

func scalarTerm(v Val) string {
	switch v.K {
	case VInt, VBool:
		return v.T
	case VPtr:
		return ptrRef(v.P)
	}
	panic(oos("scalar expected, got %s", v))
}

func (fr *Frame) inLoop(b *ssa.BasicBlock) bool {
	for _, l := range fr.loops {
		if l.blocks[b] {
			return true
		}
	}
	return false
}

// define names the leaves of a computed value to keep terms small.
func (fr *Frame) define(in ssa.Value, v Val) Val {
	return fr.defineT(in.Name(), in.Type(), v)
}

func (fr *Frame) defineT(name string, t types.Type, v Val) Val {
	ex := fr.ex
	switch v.K {
	case VInt:
		return vInt(ex.sc.Define(fr.fn.Name()+"."+name, SInt, v.T))
	case VBool:
		return vBool(ex.sc.Define(fr.fn.Name()+"."+name, SBool, v.T))
	case VStruct, VSlice, VIface, VTuple:
		ls := leavesOf(t)
		ts := flatten(v)
		if len(ls) != len(ts) {
			return v
		}
		for i := range ts {
			ts[i] = ex.sc.Define(fr.fn.Name()+"."+name, ls[i].Sort, ts[i])
		}
		// keep pointer shapes / closures as they are where possible
		nv, _ := unflatten(t, ts)
		return nv
	}
	return v
}

func (fr *Frame) unop(in *ssa.UnOp) {
	ex := fr.ex
	x := fr.val(in.X)
	switch in.Op {
	case token.MUL: // load
		if x.K != VPtr {
			panic(oos("load through %s", x))
		}
		fr.nilCheck(x.P, in.Pos())
		t := in.Type()
		if cv, ok := ex.cellPtr[x.P.Ref+"/"+x.P.Path]; ok && x.P.Root == "obj" {
			fr.vals[in] = cv
			return
		}
		v := ex.load(fr.st, x.P, t)
		v = fr.define(in, v)
		fr.loadFacts(t, v)
		fr.vals[in] = v
	case token.NOT:
		fr.vals[in] = vBool(mkNot(x.T))
	case token.SUB:
		fr.vals[in] = fr.define(in, vInt(wrap1(in.Type(), mkApp("-", "0", x.T))))
	case token.XOR:
		f := ex.sc.DeclareFun("bitnot", []Sort{SInt}, SInt)
		fr.vals[in] = vInt(wrapMod(in.Type(), mkApp(f, x.T)))
	case token.ARROW:
		// receive: unconstrained value
		ex.abstr["channel receive in "+fr.fn.Name()+": value unconstrained, blocking not modelled"] = true
		t := in.Type()
		if in.CommaOk {
			t = in.Type().(*types.Tuple).At(0).Type()
		}
		v, facts := ex.freshVal(fr.st, t, "recv")
		fr.assumeAll(facts)
		fr.chanRecvT(fr.val(in.X), v, "true", in.X.Type().Underlying().(*types.Chan).Elem())
		if in.CommaOk {
			fr.vals[in] = Val{K: VTuple, Fs: []Val{v, vBool(ex.sc.Fresh("recvok", SBool))}}
		} else {
			fr.vals[in] = v
		}
	default:
		panic(oos("unary operator %s", in.Op))
	}
}

func (fr *Frame) makeInterface(x Val, t types.Type) Val {
	ex := fr.ex
	tag := ex.typeTag(t)
	switch t.Underlying().(type) {
	case *types.Pointer:
		if x.K == VPtr && (x.P.Root != "obj" || x.P.Path != "") {
			// interior pointer boxed into an interface: opaque reference
			ex.abstr["interior pointer converted to interface in "+fr.fn.Name()] = true
			return Val{K: VIface, Fs: []Val{vInt(tag), vInt(fr.allocRef())}}
		}
		return Val{K: VIface, Fs: []Val{vInt(tag), vInt(ptrRef(x.P))}}
	case *types.Map, *types.Chan, *types.Signature:
		if x.K == VFunc {
			return Val{K: VIface, Fs: []Val{vInt(tag), vInt(fr.allocRef())}}
		}
		return Val{K: VIface, Fs: []Val{vInt(tag), x}}
	case *types.Interface:
		return x
	}
	// box the value
	ref := fr.allocRef()
	p := &Ptr{Root: "obj", Base: boxType{t}, Ref: ref, Elem: t}
	_ = p
	ls := leavesOf(t)
	ts := flatten(x)
	for i, l := range ls {
		key := "B." + typeKey(t) + "." + l.Path
		srt := SArr(SInt, l.Sort)
		a := ex.get(fr.st, key, srt)
		ex.set(fr.st, key, srt, mkStore(a, ref, ts[i]))
	}
	return Val{K: VIface, Fs: []Val{vInt(tag), vInt(ref)}}
}

// boxType is a placeholder (boxes use the B.* heap keys directly).
type boxType struct{ types.Type }

func (ex *Exec) unbox(st *State, t types.Type, ref string) Val {
	switch u := t.Underlying().(type) {
	case *types.Pointer:
		return Val{K: VPtr, P: &Ptr{Root: "obj", Base: u.Elem(), Ref: ref, Elem: u.Elem()}}
	case *types.Map, *types.Chan, *types.Signature:
		return vInt(ref)
	}
	ls := leavesOf(t)
	ts := make([]string, len(ls))
	for i, l := range ls {
		key := "B." + typeKey(t) + "." + l.Path
		ts[i] = mkSelect(ex.get(st, key, SArr(SInt, l.Sort)), ref)
	}
	v, _ := unflatten(t, ts)
	return v
}

func (fr *Frame) typeAssert(in *ssa.TypeAssert) {
	ex := fr.ex
	x := fr.val(in.X)
	if x.K != VIface {
		panic(oos("type assertion on %s", x))
	}
	var ok string
	var v Val
	if _, isIface := in.AssertedType.Underlying().(*types.Interface); isIface {
		f := ex.sc.DeclareFun("implements_"+typeKey(in.AssertedType), []Sort{SInt}, SBool)
		ok = mkAnd(mkNot(mkEq(x.Fs[0].T, "0")), mkApp(f, x.Fs[0].T))
		v = x
	} else {
		ok = mkEq(x.Fs[0].T, ex.typeTag(in.AssertedType))
		v = ex.unbox(fr.st, in.AssertedType, x.Fs[1].T)
		v = fr.defineT(in.Name(), in.AssertedType, v)
	}
	if in.CommaOk {
		okv := ex.sc.Define("ok", SBool, ok)
		fr.vals[in] = Val{K: VTuple, Fs: []Val{v, vBool(okv)}}
		// facts hold only when ok
		facts := ex.valFacts(fr.st, in.AssertedType, v)
		if len(facts) > 0 {
			fr.assume(mkImp(okv, mkAnd(facts...)))
		}
		return
	}
	fr.safety("typeassert", ok, in.Pos())
	fr.loadFacts(in.AssertedType, v)
	fr.vals[in] = v
}

func (fr *Frame) sliceOp(in *ssa.Slice) {
	ex := fr.ex
	x := fr.val(in.X)
	var arr, off, ln, cp string
	switch xt := in.X.Type().Underlying().(type) {
	case *types.Slice:
		arr, off, ln, cp = x.Fs[0].T, x.Fs[1].T, x.Fs[2].T, x.Fs[3].T
	case *types.Pointer:
		at := xt.Elem().Underlying().(*types.Array)
		if x.K != VPtr || x.P.Root != "elem" {
			panic(oos("slice of array pointer %s", x))
		}
		arr, off, ln, cp = x.P.Ref, x.P.Idx, fmt.Sprint(at.Len()), fmt.Sprint(at.Len())
	case *types.Basic: // string
		f := ex.sc.DeclareFun("substr", []Sort{SInt, SInt, SInt}, SInt)
		lo, hi := "0", ex.strLen(x.T)
		if in.Low != nil {
			lo = fr.val(in.Low).T
		}
		if in.High != nil {
			hi = fr.val(in.High).T
		}
		fr.safety("slice", mkAnd(mkApp("<=", "0", lo), mkApp("<=", lo, hi), mkApp("<=", hi, ex.strLen(x.T))), in.Pos())
		r := ex.sc.Define("substr", SInt, mkApp(f, x.T, lo, hi))
		fr.assume(mkEq(ex.strLen(r), mkApp("-", hi, lo)))
		fr.vals[in] = vInt(r)
		return
	default:
		panic(oos("slice of %s", in.X.Type()))
	}
	lo, hi, mx := "0", ln, cp
	if in.Low != nil {
		lo = fr.val(in.Low).T
	}
	if in.High != nil {
		hi = fr.val(in.High).T
	}
	if in.Max != nil {
		mx = fr.val(in.Max).T
	}
	fr.safety("slice", mkAnd(mkApp("<=", "0", lo), mkApp("<=", lo, hi), mkApp("<=", hi, mx), mkApp("<=", mx, cp)), in.Pos())
	no := off
	if lo != "0" {
		no = ex.sidx(off, lo)
	}
	v := Val{K: VSlice, Fs: []Val{vInt(arr), vInt(no), vInt(mkApp("-", hi, lo)), vInt(mkApp("-", mx, lo))}}
	if lo == "0" {
		v.Fs[2], v.Fs[3] = vInt(hi), vInt(mx)
	}
	fr.vals[in] = fr.define(in, v)
}

func (fr *Frame) mapUpdate(mt *types.Map, m, k string, v Val) {
	ex := fr.ex
	mk := mapHeap(mt)
	d := ex.get(fr.st, mk.dom, domSort)
	c := ex.get(fr.st, mk.card, cardSort)
	row := mkSelect(d, m)
	had := mkSelect(row, k)
	ex.set(fr.st, mk.card, cardSort, mkStore(c, m, mkIte(had, mkSelect(c, m), mkApp("+", mkSelect(c, m), "1"))))
	ex.set(fr.st, mk.dom, domSort, mkStore(d, m, mkStore(row, k, "true")))
	ts := flatten(v)
	for i, l := range mk.vals {
		a := ex.get(fr.st, l.Key, l.Sort)
		ex.set(fr.st, l.Key, l.Sort, mkStore(a, m, mkStore(mkSelect(a, m), k, ts[i])))
	}
}

func (fr *Frame) mapDelete(mt *types.Map, m, k string) {
	ex := fr.ex
	mk := mapHeap(mt)
	d := ex.get(fr.st, mk.dom, domSort)
	c := ex.get(fr.st, mk.card, cardSort)
	row := mkSelect(d, m)
	had := mkSelect(row, k)
	ex.set(fr.st, mk.card, cardSort, mkStore(c, m, mkIte(had, mkApp("-", mkSelect(c, m), "1"), mkSelect(c, m))))
	ex.set(fr.st, mk.dom, domSort, mkStore(d, m, mkStore(row, k, "false")))
}

func (fr *Frame) rangeInstr(in *ssa.Range) {
	ex := fr.ex
	x := fr.val(in.X)
	mt, ok := in.X.Type().Underlying().(*types.Map)
	if !ok {
		panic(oos("range over %s", in.X.Type()))
	}
	id := fmt.Sprintf("%s.%s", fr.fn.Name(), in.Name())
	it := &IterInfo{Key: "IT." + id, Map: x, KeyT: mt.Key(), ValT: mt.Elem(), RangeID: id}
	it.CardAt = ex.sc.Define("card."+id, SInt, ex.mapCard(fr.st, mt, x.T))
	it.DomAt = ex.sc.Define("dom."+id, SArr(SInt, SBool), ex.mapDom(fr.st, mt, x.T))
	for _, r := range ex.mapValRows(fr.st, mt, x.T) {
		it.ValAt = append(it.ValAt, r)
	}
	it.Enum = ex.sc.DeclareFun(ex.sc.fresh("enum."+id), []Sort{SInt}, SInt)
	idx := ex.sc.DeclareFun(ex.sc.fresh("enumidx."+id), []Sort{SInt}, SInt)
	// enumeration of the key set: injective, into and onto the domain
	fr.assume(mkApp(">=", it.CardAt, "0"))
	fr.assume(fmt.Sprintf("(forall ((j Int)) (! (=> (and (<= 0 j) (< j %s)) (and (select %s (%s j)) (= (%s (%s j)) j))) :pattern ((%s j))))", it.CardAt, it.DomAt, it.Enum, idx, it.Enum, it.Enum))
	fr.assume(fmt.Sprintf("(forall ((k Int)) (! (=> (select %s k) (and (<= 0 (%s k)) (< (%s k) %s) (= (%s (%s k)) k))) :pattern ((%s k))))", it.DomAt, idx, idx, it.CardAt, it.Enum, idx, idx))
	// keys are well-typed values (references and strings are non-negative)
	if kl := leavesOf(mt.Key()); len(kl) == 1 {
		lo := ""
		switch kl[0].Kind {
		case "str", "ref":
			lo = "0"
		case "int":
			lo, _, _ = intRange(kl[0].Typ)
		}
		if lo != "" {
			fr.assume(fmt.Sprintf("(forall ((j Int)) (! (=> (and (<= 0 j) (< j %s)) (<= %s (%s j))) :pattern ((%s j))))", it.CardAt, lo, it.Enum, it.Enum))
		}
	}
	ex.get(fr.st, it.Key, SInt)
	ex.set(fr.st, it.Key, SInt, "0")
	fr.iters[in] = it
	fr.vals[in] = Val{K: VIter, It: it}
}

func (fr *Frame) nextInstr(in *ssa.Next) {
	ex := fr.ex
	if in.IsString {
		panic(oos("range over string"))
	}
	itv := fr.val(in.Iter)
	it := itv.It
	mt := it.Map
	_ = mt
	pos := ex.get(fr.st, it.Key, SInt)
	ok := ex.sc.Define("next.ok", SBool, mkApp("<", pos, it.CardAt))
	k := ex.sc.Define("next.k", SInt, mkApp(it.Enum, pos))
	// the map type
	rng := in.Iter.(*ssa.Range)
	mapT := rng.X.Type().Underlying().(*types.Map)
	v, _ := ex.mapLookup(fr.st, mapT, it.Map.T, k)
	v = fr.defineT("next.v", mapT.Elem(), v)
	// inside the domain the lookup is the stored value
	kv, _ := unflatten(mapT.Key(), []string{k})
	fr.assume(mkImp(ok, mkAnd(append(ex.valFacts(fr.st, mapT.Key(), kv), ex.valFacts(fr.st, mapT.Elem(), v)...)...)))
	ex.set(fr.st, it.Key, SInt, mkIte(ok, mkApp("+", pos, "1"), pos))
	fr.vals[in] = Val{K: VTuple, Fs: []Val{vBool(ok), kv, v}}
}

// chSentKey: the send counter of channels is kept per element type (channels of
// different element types never alias).
func chSentKey(chanT types.Type) string {
	return "CH.sent." + typeKey(chanT.Underlying().(*types.Chan).Elem())
}

// chanSendT records a send: the per-channel counter and the last value sent
// (all leaves, keyed by the element type).
func (fr *Frame) chanSendT(ch Val, v Val, cond string, et types.Type) {
	ex := fr.ex
	sk := "CH.sent." + typeKey(et)
	s := ex.get(fr.st, sk, SArr(SInt, SInt))
	ex.set(fr.st, sk, SArr(SInt, SInt), mkIte(cond, mkStore(s, ch.T, mkApp("+", mkSelect(s, ch.T), "1")), s))
	if et != nil {
		ls := leavesOf(et)
		ts := flatten(v)
		if len(ls) == len(ts) {
			for i, l := range ls {
				key := "CH.last." + typeKey(et) + "." + l.Path
				srt := SArr(SInt, l.Sort)
				ex.kinds[key] = l.Kind
				ex.leafTyp[key] = l.Typ
				a := ex.get(fr.st, key, srt)
				ex.set(fr.st, key, srt, mkIte(cond, mkStore(a, ch.T, ts[i]), a))
			}
		}
	}
}

// chanRecvT records a receive: the per-channel receive counter and the last value received
// (the value itself is unconstrained; what is recorded is which value this routine took).
func (fr *Frame) chanRecvT(ch Val, v Val, cond string, et types.Type) {
	ex := fr.ex
	rk := "CH.recv." + typeKey(et)
	s := ex.get(fr.st, rk, SArr(SInt, SInt))
	ex.set(fr.st, rk, SArr(SInt, SInt), mkIte(cond, mkStore(s, ch.T, mkApp("+", mkSelect(s, ch.T), "1")), s))
	ls := leavesOf(et)
	ts := flatten(v)
	if len(ls) == len(ts) {
		for i, l := range ls {
			key := "CH.lastrecv." + typeKey(et) + "." + l.Path
			srt := SArr(SInt, l.Sort)
			ex.kinds[key] = l.Kind
			ex.leafTyp[key] = l.Typ
			a := ex.get(fr.st, key, srt)
			ex.set(fr.st, key, srt, mkIte(cond, mkStore(a, ch.T, ts[i]), a))
		}
	}
}

func (fr *Frame) selectInstr(in *ssa.Select) {
	ex := fr.ex
	ex.abstr["select in "+fr.fn.Name()+": non-deterministic choice among cases"] = true
	n := len(in.States)
	idx := ex.sc.Fresh("select.idx", SInt)
	lo := "0"
	if !in.Blocking {
		lo = "(- 1)"
	}
	fr.assume(mkAnd(mkApp("<=", lo, idx), mkApp("<", idx, fmt.Sprint(n))))
	fs := []Val{vInt(idx), vBool(ex.sc.Fresh("select.recvok", SBool))}
	for i, s := range in.States {
		ch := fr.val(s.Chan)
		// a nil channel is never selected
		fr.assume(mkImp(mkEq(idx, fmt.Sprint(i)), mkNot(mkEq(ch.T, "0"))))
		if s.Dir == types.SendOnly {
			fr.chanSendT(ch, fr.val(s.Send), mkEq(idx, fmt.Sprint(i)), s.Chan.Type().Underlying().(*types.Chan).Elem())
		} else {
			et := s.Chan.Type().Underlying().(*types.Chan).Elem()
			v, facts := ex.freshVal(fr.st, et, "select.recv")
			if len(facts) > 0 {
				fr.assume(mkImp(mkEq(idx, fmt.Sprint(i)), mkAnd(facts...)))
			}
			fr.chanRecvT(ch, v, mkEq(idx, fmt.Sprint(i)), et)
			fs = append(fs, v)
		}
	}
	fr.vals[in] = Val{K: VTuple, Fs: fs}
}

func (fr *Frame) runDefers(in *ssa.RunDefers) {
	ex := fr.ex
	for i := len(fr.defers) - 1; i >= 0; i-- {
		d := fr.defers[i]
		uncond := d.block.Dominates(in.Block())
		savedCur := fr.cur
		var before *State
		if !uncond {
			before = fr.st.clone()
			fr.cur = ex.sc.Define("defer.cur", SBool, mkAnd(fr.cur, d.active))
		}
		fr.callValue(d.instr, d.instr.Common(), d.fn, d.args)
		if !uncond {
			after := fr.st
			fr.st = ex.mergeStates([]string{d.active, "true"}, []*State{after, before})
			fr.cur = savedCur
		}
	}
}
