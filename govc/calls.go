package main

import (
	"fmt"
	"go/types"
	"sort"
	"strings"

	"golang.org/x/tools/go/ssa"
)

const maxInlineDepth = 12

func (fr *Frame) call(in ssa.CallInstruction, c *ssa.CallCommon) Val {
	args := make([]Val, len(c.Args))
	for i, a := range c.Args {
		args[i] = fr.val(a)
	}
	return fr.callValue(in, c, fr.val(c.Value), args)
}

func resultType(c *ssa.CallCommon) types.Type {
	sig := c.Signature()
	switch sig.Results().Len() {
	case 0:
		return nil
	case 1:
		return sig.Results().At(0).Type()
	}
	return sig.Results()
}

func (fr *Frame) callValue(in ssa.CallInstruction, c *ssa.CallCommon, fv Val, args []Val) Val {
	ex := fr.ex
	name := calleeName(ex.prog, c)
	rt := resultType(c)
	// call-site assertions attached by the contract of the function under verification
	if fr.top && ex.fc != nil && len(ex.fc.CallAsserts) > 0 {
		site := fmt.Sprintf("%s#%d", name, fr.callOrd[in])
		// "callee#*" attaches a clause to every call of the callee in this function (also to calls added later)
		cls := append(append([]Clause{}, ex.fc.CallAsserts[site]...), ex.fc.CallAsserts[name+"#*"]...)
		if len(ex.fc.CallAsserts[name+"#*"]) > 0 {
			ex.usedAsserts[name+"#*"] = true
		}
		if len(cls) > 0 {
			cenv := fr.topEnv(fr.st)
			cenv.old = ex.entry
			if lc := fr.innermostLoopCtx(in.Block()); lc != nil {
				cenv.loop = lc
			}
			for n, tv := range fr.localsInLoop(in) {
				if _, ok := cenv.vars[n]; !ok {
					cenv.vars[n] = tv
				}
			}
			// the call's arguments are visible as arg0, arg1, ... (receiver first)
			for i, a := range c.Args {
				if i < len(args) {
					cenv.vars[fmt.Sprintf("arg%d", i)] = TV{V: args[i], T: a.Type()}
				}
			}
			if co := ex.addOblig("cover", "site."+site, ex.prog.pos(in.Pos()), mkNot(fr.cur), "the call site carrying assertions is reachable"); co != nil {
				co.ExpectSat = true
			}
			for _, cl := range cls {
				g := fr.evalClause(cenv, cl)
				ex.addOblig("assert@", site+":"+cl.Label, ex.prog.pos(in.Pos()), mkImp(fr.cur, g), cl.Src)
				fr.assume(g)
			}
			ex.usedAsserts[site] = true
		}
	}
	// "callee#*" also covers calls made from inlined callees, closures and deferred functions of the function
	// under verification (named callee#<inlined function>.<k>); the function's own locals have the values
	// they have at that moment
	if !fr.top && ex.fc != nil && ex.topFrame != nil && len(ex.fc.CallAsserts[name+"#*"]) > 0 {
		site := fmt.Sprintf("%s#%s.%d", name, fr.fn.Name(), fr.callOrd[in])
		ex.usedAsserts[name+"#*"] = true
		cenv := ex.topFrame.topEnv(fr.st)
		cenv.old = ex.entry
		// variables of the function under verification that the closures on the way captured
		for p := fr; p != nil && !p.top; p = p.parent {
			for _, fv := range p.fn.FreeVars {
				if pv, ok := p.vals[fv]; ok && pv.K == VPtr {
					if _, have := cenv.vars[fv.Name()]; !have {
						cenv.vars[fv.Name()] = TV{V: ex.load(fr.st, pv.P, pv.P.Elem), T: pv.P.Elem}
					}
				}
			}
		}
		for i, a := range c.Args {
			if i < len(args) {
				cenv.vars[fmt.Sprintf("arg%d", i)] = TV{V: args[i], T: a.Type()}
			}
		}
		for _, cl := range ex.fc.CallAsserts[name+"#*"] {
			g := fr.evalClause(cenv, cl)
			ex.addOblig("assert@", site+":"+cl.Label, ex.prog.pos(in.Pos()), mkImp(fr.cur, g), cl.Src)
			fr.assume(g)
		}
	}
	// builtins
	if b, ok := c.Value.(*ssa.Builtin); ok {
		return fr.builtin(in, b, c, args)
	}
	if c.IsInvoke() {
		if fv.K != VIface {
			panic(oos("invoke on %s", fv))
		}
		fr.safety("nil", mkNot(mkEq(fv.Fs[0].T, "0")), in.Pos())
		if name == "error.Error" {
			return vInt(mkApp(ex.errMsgFun(), fv.Fs[0].T, fv.Fs[1].T))
		}
		if fc := ex.ctr.Funcs[name]; fc != nil {
			ex.assumed["interface "+name+" (assumed contract)"] = true
			return fr.applyContract(in, name, fc, c.Signature(), &TV{V: fv, T: c.Value.Type()}, args, nil)
		}
		return fr.defaultExternal(in, name, c, args, pureIface(c.Value.Type()))
	}
	var fn *ssa.Function
	var binds []Val
	switch v := c.Value.(type) {
	case *ssa.Function:
		fn = v
	case *ssa.MakeClosure:
		fn = v.Fn.(*ssa.Function)
		binds = fv.Bs
	default:
		if fv.K == VFunc && fv.Fn != nil {
			fn = fv.Fn
			binds = fv.Bs
		}
	}
	if fn == nil {
		// dynamic function value
		return fr.defaultExternal(in, "func-value:"+shortType(c.Value.Type()), c, args, false)
	}
	full := fn.RelString(nil)
	if r, ok := fr.intrinsic(in, fn, full, c, args); ok {
		return r
	}
	if fn.Pkg == ex.prog.SSA || fn.Parent() != nil && fn.Parent().Pkg == ex.prog.SSA {
		key := fn.RelString(ex.prog.SSA.Pkg)
		if fc := ex.ctr.Funcs[key]; fc != nil && fc.Kind == "func" && !(fr.top && fn == fr.fn) && !fc.ModDeclared && !fc.Trusted {
			// a contract without a modifies clause says nothing about the frame: callers see the body instead
			if len(fn.Blocks) == 0 {
				panic(oos("contract of %s has no modifies clause and the function cannot be inlined", key))
			}
			return fr.inline(in, fn, args, binds, rt)
		}
		if fc := ex.ctr.Funcs[key]; fc != nil && fc.Kind == "func" && !(fr.top && fn == fr.fn) {
			if fc.Trusted {
				ex.assumed["func "+key+" (trusted contract: "+fc.TrustReason+")"] = true
			}
			return fr.applyContract(in, key, fc, fn.Signature, nil, args, fn)
		}
		if len(fn.Blocks) > 0 {
			return fr.inline(in, fn, args, binds, rt)
		}
	}
	if fc := ex.ctr.Funcs[full]; fc != nil && fc.Kind == "extern" {
		ex.assumed["extern "+full+" (assumed contract)"] = true
		return fr.applyContract(in, full, fc, fn.Signature, nil, args, fn)
	}
	// wrappers generated for embedded-interface promotion etc.
	if fn.Synthetic != "" && len(fn.Blocks) > 0 && fr.depth < maxInlineDepth {
		return fr.inline(in, fn, args, binds, rt)
	}
	return fr.defaultExternal(in, full, c, args, purePkg(fn))
}

var purePkgs = map[string]bool{"fmt": true, "errors": true, "strings": true, "strconv": true, "time": true, "math": true, "bytes": true,
	"github.com/hashicorp/go-metrics": true, "github.com/hashicorp/go-metrics/compat": true, "github.com/armon/go-metrics": true, "github.com/hashicorp/go-hclog": true, "path/filepath": true, "math/rand": true, "crypto/rand": true, "math/big": true, "os": false, "sort": false, "runtime": true, "log": true}

func purePkg(fn *ssa.Function) bool {
	if fn.Pkg != nil {
		return purePkgs[fn.Pkg.Pkg.Path()]
	}
	if fn.Object() != nil && fn.Object().Pkg() != nil {
		return purePkgs[fn.Object().Pkg().Path()]
	}
	return false
}

func pureIface(t types.Type) bool {
	if n, ok := t.(*types.Named); ok {
		if n.Obj().Pkg() == nil { // error
			return true
		}
		p := n.Obj().Pkg().Path()
		return purePkgs[p]
	}
	return false
}

// defaultExternal: the callee does not touch modelled state reachable other
// than through its pointer arguments; its result is unconstrained.
func (fr *Frame) defaultExternal(in ssa.CallInstruction, name string, c *ssa.CallCommon, args []Val, pure bool) Val {
	ex := fr.ex
	if pure {
		ex.externs[name+" (pure: no effect on modelled state)"] = true
	} else {
		ex.externs[name+" (may write through pointer arguments only)"] = true
		for i, a := range args {
			at := c.Args[i].Type()
			switch a.K {
			case VPtr:
				if a.P.Root == "global" {
					continue
				}
				et := at.Underlying().(*types.Pointer).Elem()
				if _, isStruct := et.Underlying().(*types.Struct); isStruct && len(leavesOf(et)) > 40 {
					// large objects (e.g. *Raft) passed to unknown code: refuse
					panic(oos("large object %s passed to external function %s without a contract", shortType(et), name))
				}
				v, facts := ex.freshVal(fr.st, et, "ext."+sanitize(name))
				ex.store(fr.st, a.P, et, v)
				fr.assumeAll(facts)
			case VSlice:
				et := at.Underlying().(*types.Slice).Elem()
				for _, l := range ptrLocs(&Ptr{Root: "elem", Base: et, Ref: a.Fs[0].T, Idx: "0", Elem: et}, et) {
					arr := ex.get(fr.st, l.Key, l.Sort)
					ex.set(fr.st, l.Key, l.Sort, mkStore(arr, a.Fs[0].T, ex.sc.Fresh("ext.row", SArr(SInt, l.Leaf.Sort))))
				}
			}
		}
	}
	rt := resultType(c)
	if rt == nil {
		return vUnit
	}
	// the callee may allocate
	fr.bumpAlloc()
	v, facts := ex.freshVal(fr.st, rt, "ext."+sanitize(name))
	fr.assumeAll(facts)
	return v
}

func (fr *Frame) bumpAlloc() {
	ex := fr.ex
	old := ex.get(fr.st, allocKey, SInt)
	n := ex.havocKey(fr.st, allocKey)
	fr.assume(mkApp(">=", n, old))
}

func (fr *Frame) builtin(in ssa.CallInstruction, b *ssa.Builtin, c *ssa.CallCommon, args []Val) Val {
	ex := fr.ex
	switch b.Name() {
	case "len":
		switch t := c.Args[0].Type().Underlying().(type) {
		case *types.Slice:
			return args[0].Fs[2]
		case *types.Map:
			return vInt(ex.sc.Define("len", SInt, mkIte(mkEq(args[0].T, "0"), "0", ex.mapCard(fr.st, t, args[0].T))))
		case *types.Basic:
			return vInt(ex.strLen(args[0].T))
		case *types.Chan:
			r := ex.sc.Fresh("chanlen", SInt)
			fr.assume(mkApp("<=", "0", r))
			return vInt(r)
		case *types.Array:
			return vInt(fmt.Sprint(t.Len()))
		case *types.Pointer:
			return vInt(fmt.Sprint(t.Elem().Underlying().(*types.Array).Len()))
		}
	case "cap":
		switch c.Args[0].Type().Underlying().(type) {
		case *types.Slice:
			return args[0].Fs[3]
		case *types.Chan:
			return vInt(mkSelect(ex.get(fr.st, "CH.cap", SArr(SInt, SInt)), args[0].T))
		}
	case "append":
		return fr.appendBuiltin(in, c, args)
	case "copy":
		return fr.copyBuiltin(in, c, args)
	case "delete":
		mt := c.Args[0].Type().Underlying().(*types.Map)
		fr.mapDelete(mt, args[0].T, scalarTerm(args[1]))
		return vUnit
	case "min", "max":
		t := c.Args[0].Type()
		if !isIntType(t) {
			panic(oos("min/max on %s", t))
		}
		op := "<="
		if b.Name() == "max" {
			op = ">="
		}
		r := args[0].T
		for _, a := range args[1:] {
			r = mkIte(mkApp(op, r, a.T), r, a.T)
		}
		return vInt(ex.sc.Define(b.Name(), SInt, r))
	case "close":
		ex.abstr["close(chan) in "+fr.fn.Name()] = true
		cl := ex.get(fr.st, "CH.closed", SArr(SInt, SBool))
		ex.set(fr.st, "CH.closed", SArr(SInt, SBool), mkStore(cl, args[0].T, "true"))
		return vUnit
	case "print", "println":
		return vUnit
	case "recover":
		return Val{K: VIface, Fs: []Val{vInt("0"), vInt("0")}}
	case "clear":
		panic(oos("builtin clear"))
	}
	panic(oos("builtin %s on %s", b.Name(), c.Args[0].Type()))
}

// appendBuiltin models append(s, t...): in place when the capacity suffices,
// otherwise a fresh backing array with the old contents copied.
func (fr *Frame) appendBuiltin(in ssa.CallInstruction, c *ssa.CallCommon, args []Val) Val {
	ex := fr.ex
	s, t := args[0], args[1]
	st := c.Args[0].Type().Underlying().(*types.Slice)
	et := st.Elem()
	if isStringType(c.Args[1].Type()) {
		// append([]byte, string...)
		arr := fr.allocRef()
		ln := mkApp("+", s.Fs[2].T, ex.strLen(t.T))
		return Val{K: VSlice, Fs: []Val{vInt(arr), vInt("0"), vInt(ex.sc.Define("append.len", SInt, ln)), vInt(ex.sc.Define("append.cap", SInt, ln))}}
	}
	sArr, sOff, sLen, sCap := s.Fs[0].T, s.Fs[1].T, s.Fs[2].T, s.Fs[3].T
	tArr, tOff, tLen := t.Fs[0].T, t.Fs[1].T, t.Fs[2].T
	newLen := ex.sc.Define("append.len", SInt, mkApp("+", sLen, tLen))
	fits := ex.sc.Define("append.fits", SBool, mkApp("<=", newLen, sCap))
	fresh := fr.allocRef()
	newCap := ex.sc.Fresh("append.cap", SInt)
	fr.assume(mkAnd(mkApp(">=", newCap, newLen), mkApp("<", newCap, intLit(two63))))
	// append(s) with nothing to add returns s itself
	noop := ex.sc.Define("append.noop", SBool, mkEq(tLen, "0"))
	rArr := ex.sc.Define("append.arr", SInt, mkIte(mkOr(fits, noop), sArr, fresh))
	rOff := ex.sc.Define("append.off", SInt, mkIte(mkOr(fits, noop), sOff, "0"))
	rCap := ex.sc.Define("append.rcap", SInt, mkIte(mkOr(fits, noop), sCap, newCap))
	// element moves, per leaf (memmove semantics: reads see the pre-state):
	//   tail   [base, base+tLen)  comes from t, base = rOff+sLen
	//   prefix [0, sLen)          comes from s when a new array is allocated
	//   everything else is what the target row held before (zero for a new array)
	inPlace := mkOr(fits, noop)
	base := ex.sc.Define("append.base", SInt, mkAdd(rOff, sLen))
	for _, l := range ptrLocs(&Ptr{Root: "elem", Base: et, Ref: "0", Idx: "0", Elem: et}, et) {
		a := ex.get(fr.st, l.Key, l.Sort)
		rowS := ex.sc.Define("append.rowS", SArr(SInt, l.Leaf.Sort), mkSelect(a, sArr))
		rowT := ex.sc.Define("append.rowT", SArr(SInt, l.Leaf.Sort), mkSelect(a, tArr))
		rowSort := SArr(SInt, l.Leaf.Sort)
		newRow := ex.sc.Fresh("append.row", rowSort)
		inTail := fmt.Sprintf("(and (<= %s p) (< p %s))", base, mkAdd(base, tLen))
		other := mkIte(inPlace, mkSelect(rowS, "p"), mkIte(fmt.Sprintf("(and (<= 0 p) (< p %s))", sLen), mkSelect(rowS, ex.sidx(sOff, "p")), zeroLeaf(l.Leaf)))
		fr.assume(fmt.Sprintf("(forall ((p Int)) (! (= (select %s p) (ite %s (select %s %s) %s)) :pattern ((select %s p))))",
			newRow, inTail, rowT, ex.sidx(tOff, mkSub("p", base)), other, newRow))
		// the same facts, triggered from reads of the source rows (absolute positions r)
		fr.assume(fmt.Sprintf("(forall ((r Int)) (! (=> (and (<= %s r) (< r %s)) (= (select %s %s) (select %s r))) :pattern ((select %s r))))",
			tOff, mkAdd(tOff, tLen), newRow, mkAdd(base, mkSub("r", tOff)), rowT, rowT))
		fr.assume(fmt.Sprintf("(forall ((p Int)) (! (=> (and %s (not %s)) (= (select %s p) (select %s p))) :pattern ((select %s p))))",
			inPlace, inTail, newRow, rowS, rowS))
		if sLen != "0" {
			fr.assume(fmt.Sprintf("(forall ((r Int)) (! (=> (and (not %s) (<= %s r) (< r %s)) (= (select %s %s) (select %s r))) :pattern ((select %s r))))",
				inPlace, sOff, mkAdd(sOff, sLen), newRow, mkSub("r", sOff), rowS, rowS))
		}
		ex.set(fr.st, l.Key, l.Sort, mkIte(noop, a, mkStore(a, rArr, newRow)))
	}
	return Val{K: VSlice, Fs: []Val{vInt(rArr), vInt(rOff), vInt(newLen), vInt(rCap)}}
}

func (fr *Frame) copyBuiltin(in ssa.CallInstruction, c *ssa.CallCommon, args []Val) Val {
	ex := fr.ex
	d, s := args[0], args[1]
	dt := c.Args[0].Type().Underlying().(*types.Slice)
	et := dt.Elem()
	if isStringType(c.Args[1].Type()) {
		n := ex.sc.Define("copy.n", SInt, mkIte(mkApp("<=", d.Fs[2].T, ex.strLen(s.T)), d.Fs[2].T, ex.strLen(s.T)))
		a := ex.get(fr.st, "E.uint8.", SArr(SInt, SArr(SInt, SInt)))
		ex.set(fr.st, "E.uint8.", SArr(SInt, SArr(SInt, SInt)), mkStore(a, d.Fs[0].T, ex.sc.Fresh("copy.row", SArr(SInt, SInt))))
		return vInt(n)
	}
	n := ex.sc.Define("copy.n", SInt, mkIte(mkApp("<=", d.Fs[2].T, s.Fs[2].T), d.Fs[2].T, s.Fs[2].T))
	for _, l := range ptrLocs(&Ptr{Root: "elem", Base: et, Ref: "0", Idx: "0", Elem: et}, et) {
		a := ex.get(fr.st, l.Key, l.Sort)
		rowD := mkSelect(a, d.Fs[0].T)
		rowS := mkSelect(a, s.Fs[0].T)
		newRow := ex.sc.Fresh("copy.row", SArr(SInt, l.Leaf.Sort))
		fr.assume(fmt.Sprintf("(forall ((p Int)) (! (= (select %s p) (ite (and (<= %s p) (< p (+ %s %s))) (select %s (+ %s (- p %s))) (select %s p))) :pattern ((select %s p))))",
			newRow, d.Fs[1].T, d.Fs[1].T, n, rowS, s.Fs[1].T, d.Fs[1].T, rowD, newRow))
		ex.set(fr.st, l.Key, l.Sort, mkStore(a, d.Fs[0].T, newRow))
	}
	return vInt(n)
}

// ---- intrinsics -----------------------------------------------------------------

func (fr *Frame) intrinsic(in ssa.CallInstruction, fn *ssa.Function, full string, c *ssa.CallCommon, args []Val) (Val, bool) {
	ex := fr.ex
	switch {
	case strings.HasPrefix(full, "(*sync.Mutex)."), strings.HasPrefix(full, "(*sync.RWMutex)."), strings.HasPrefix(full, "(*sync.WaitGroup)."), strings.HasPrefix(full, "(*sync.Cond)."):
		ex.abstr["sync primitives are no-ops (A-SEQ)"] = true
		if rt := resultType(c); rt != nil {
			v, _ := ex.freshVal(fr.st, rt, "sync")
			return v, true
		}
		return vUnit, true
	case strings.HasPrefix(full, "sync/atomic.Load"):
		et := c.Args[0].Type().Underlying().(*types.Pointer).Elem()
		v := ex.load(fr.st, args[0].P, et)
		v = fr.defineT("atomic.load", et, v)
		fr.loadFacts(et, v)
		return v, true
	case strings.HasPrefix(full, "sync/atomic.Store"):
		et := c.Args[0].Type().Underlying().(*types.Pointer).Elem()
		ex.store(fr.st, args[0].P, et, args[1])
		return vUnit, true
	case strings.HasPrefix(full, "sync/atomic.Add"):
		et := c.Args[0].Type().Underlying().(*types.Pointer).Elem()
		v := ex.load(fr.st, args[0].P, et)
		nv := vInt(ex.sc.Define("atomic.add", SInt, wrap1(et, mkApp("+", v.T, args[1].T))))
		ex.store(fr.st, args[0].P, et, nv)
		return nv, true
	case strings.HasPrefix(full, "sync/atomic.CompareAndSwap"):
		et := c.Args[0].Type().Underlying().(*types.Pointer).Elem()
		v := ex.load(fr.st, args[0].P, et)
		ok := ex.sc.Define("cas.ok", SBool, mkEq(v.T, args[1].T))
		ex.store(fr.st, args[0].P, et, vInt(mkIte(ok, args[2].T, v.T)))
		return vBool(ok), true
	case strings.HasPrefix(full, "sync/atomic.Swap"):
		et := c.Args[0].Type().Underlying().(*types.Pointer).Elem()
		v := fr.defineT("atomic.swap", et, ex.load(fr.st, args[0].P, et))
		ex.store(fr.st, args[0].P, et, args[1])
		return v, true
	case strings.HasPrefix(full, "(*sync/atomic."):
		// methods of atomic.Bool / Uint64 / Int32 / Uint32 / Int64 / Value: the single data field "v"
		recvT := c.Args[0].Type().Underlying().(*types.Pointer).Elem()
		st := recvT.Underlying().(*types.Struct)
		var fld *types.Var
		for i := 0; i < st.NumFields(); i++ {
			if st.Field(i).Name() == "v" {
				fld = st.Field(i)
			}
		}
		if fld == nil {
			return Val{}, false
		}
		p := *args[0].P
		p.Path += "v."
		p.Elem = fld.Type()
		meth := full[strings.LastIndex(full, ".")+1:]
		tn := recvT.(*types.Named).Obj().Name()
		switch meth {
		case "Load":
			v := ex.load(fr.st, &p, fld.Type())
			v = fr.defineT("atomic.load", fld.Type(), v)
			fr.loadFacts(fld.Type(), v)
			if tn == "Bool" {
				return vBool(mkNot(mkEq(v.T, "0"))), true
			}
			return v, true
		case "Store":
			v := args[1]
			if tn == "Bool" {
				v = vInt(mkIte(v.T, "1", "0"))
			}
			ex.store(fr.st, &p, fld.Type(), v)
			return vUnit, true
		case "Add":
			v := ex.load(fr.st, &p, fld.Type())
			nv := vInt(ex.sc.Define("atomic.add", SInt, wrap1(fld.Type(), mkApp("+", v.T, args[1].T))))
			ex.store(fr.st, &p, fld.Type(), nv)
			return nv, true
		case "CompareAndSwap":
			v := ex.load(fr.st, &p, fld.Type())
			o, n := args[1], args[2]
			if tn == "Bool" {
				o, n = vInt(mkIte(o.T, "1", "0")), vInt(mkIte(n.T, "1", "0"))
			}
			ok := ex.sc.Define("cas.ok", SBool, valEq(v, o))
			fl, fn2 := flatten(v), flatten(n)
			ts := make([]string, len(fl))
			for i := range fl {
				ts[i] = mkIte(ok, fn2[i], fl[i])
			}
			nv, _ := unflatten(fld.Type(), ts)
			ex.store(fr.st, &p, fld.Type(), nv)
			return vBool(ok), true
		case "Swap":
			v := fr.defineT("atomic.swap", fld.Type(), ex.load(fr.st, &p, fld.Type()))
			nv := args[1]
			if tn == "Bool" {
				nv = vInt(mkIte(nv.T, "1", "0"))
				ex.store(fr.st, &p, fld.Type(), nv)
				return vBool(mkNot(mkEq(v.T, "0"))), true
			}
			ex.store(fr.st, &p, fld.Type(), nv)
			return v, true
		}
		return Val{}, false
	case full == "bytes.Equal":
		return vBool(ex.sc.Define("bytes.equal", SBool, mkEq(ex.bytesContent(fr.st, args[0]), ex.bytesContent(fr.st, args[1])))), true
	case full == "fmt.Errorf", full == "errors.New":
		ex.externs[full+" (returns a fresh non-nil error)"] = true
		ref := fr.allocRef()
		return Val{K: VIface, Fs: []Val{vInt(ex.typeTag(types.Universe.Lookup("error").Type())), vInt(ref)}}, true
	case full == "sort.Sort":
		return fr.sortIntrinsic(in, c, args), true
	case full == "(time.Time).Sub":
		f := ex.sc.DeclareFun("time_sub", []Sort{SInt, SInt, SInt, SInt, SInt, SInt}, SInt)
		a, b := flatten(args[0]), flatten(args[1])
		r := ex.sc.Define("time.sub", SInt, mkApp(f, append(a, b...)...))
		fr.assume(mkAnd(mkApp("<=", intLit(new(bigInt).Neg(two63)), r), mkApp("<", r, intLit(two63))))
		return vInt(r), true
	case full == "time.Now":
		ex.abstr["time.Now: unconstrained clock value"] = true
		v, facts := ex.freshVal(fr.st, resultType(c), "now")
		fr.assumeAll(facts)
		// ghost: the most recent clock reading made by this function (contracts: lastnow())
		for i, l := range leavesOf(resultType(c)) {
			ex.set(fr.st, "GG.lastnow."+l.Path, l.Sort, flatten(v)[i])
		}
		return v, true
	}
	return Val{}, false
}

// sortIntrinsic: assumed contract of sort.Sort for slice-backed sort.Interface
// implementations whose Less is "<" on an integer element (uint64Slice):
// the result is a sorted permutation of the input.
func (fr *Frame) sortIntrinsic(in ssa.CallInstruction, c *ssa.CallCommon, args []Val) Val {
	ex := fr.ex
	desc := false
	var mi *ssa.MakeInterface
	switch a := c.Args[0].(type) {
	case *ssa.MakeInterface:
		mi = a
	case *ssa.Call:
		// sort.Sort(sort.Reverse(x)): descending order of x's Less
		if f := a.Call.StaticCallee(); f != nil && f.Pkg != nil && f.Pkg.Pkg.Path() == "sort" && f.Name() == "Reverse" {
			if m, ok := a.Call.Args[0].(*ssa.MakeInterface); ok {
				mi, desc = m, true
			}
		}
	}
	if mi == nil {
		panic(oos("sort.Sort on a value of unknown dynamic type"))
	}
	dt := mi.X.Type()
	if less, ok := ex.ctr.SortOrders[typeKey(dt)]; ok {
		return fr.sortDeclared(mi, dt, less, desc)
	}
	if desc {
		return fr.defaultExternal(in, "sort.Sort<reverse "+typeKey(dt)+">", c, []Val{fr.val(mi.X)}, false)
	}
	if typeKey(dt) != "uint64Slice" {
		return fr.defaultExternal(in, "sort.Sort<"+typeKey(dt)+">", c, []Val{fr.val(mi.X)}, false)
	}
	ex.assumed["sort.Sort on uint64Slice: result is an ascending permutation of the input (assumed; uint64Slice.Less is '<')"] = true
	s := fr.val(mi.X)
	et := dt.Underlying().(*types.Slice).Elem()
	key := "E." + typeKey(et) + "."
	srt := SArr(SInt, SArr(SInt, SInt))
	a := ex.get(fr.st, key, srt)
	oldRow := ex.sc.Define("sort.old", SArr(SInt, SInt), mkSelect(a, s.Fs[0].T))
	newRow := ex.sc.Fresh("sort.new", SArr(SInt, SInt))
	perm := ex.sc.DeclareFun(ex.sc.fresh("sort.perm"), []Sort{SInt}, SInt)
	inv := ex.sc.DeclareFun(ex.sc.fresh("sort.inv"), []Sort{SInt}, SInt)
	off, ln := s.Fs[1].T, s.Fs[2].T
	hi := ex.sc.Define("sort.hi", SInt, mkApp("+", off, ln))
	// perm/inv map absolute positions of the slice window [off, off+len) onto each other
	inw := func(p string) string { return fmt.Sprintf("(and (<= %s %s) (< %s %s))", off, p, p, hi) }
	fr.assume(fmt.Sprintf("(forall ((p Int)) (! (=> %s (and %s (= (%s (%s p)) p) (= (select %s p) (select %s (%s p))))) :pattern ((%s p)) :pattern ((select %s p))))",
		inw("p"), inw("("+perm+" p)"), inv, perm, newRow, oldRow, perm, perm, newRow))
	fr.assume(fmt.Sprintf("(forall ((p Int)) (! (=> %s (and %s (= (%s (%s p)) p))) :pattern ((%s p))))",
		inw("p"), inw("("+inv+" p)"), perm, inv, inv))
	fr.assume(fmt.Sprintf("(forall ((p Int) (q Int)) (! (=> (and (<= %s p) (<= p q) (< q %s)) (<= (select %s p) (select %s q))) :pattern ((select %s p) (select %s q))))",
		off, hi, newRow, newRow, newRow, newRow))
	// outside the window nothing changes
	fr.assume(fmt.Sprintf("(forall ((p Int)) (! (=> (not %s) (= (select %s p) (select %s p))) :pattern ((select %s p))))", inw("p"), newRow, oldRow, newRow))
	ex.set(fr.st, key, srt, mkStore(a, s.Fs[0].T, newRow))
	fr.lastSort = &sortInfo{perm: perm, inv: inv, off: off, ln: ln}
	return vUnit
}

type sortInfo struct{ perm, inv, off, ln string }

// sortDeclared: assumed contract of sort.Sort for a slice type with a declared order
// (//@ sortorder <SliceType> <spec less(a, b)>; the type's own Less method is verified against that spec):
// the elements afterwards are a permutation of the elements before, and no later element is less than an
// earlier one (descending: no earlier element is less than a later one). Single-leaf element types only.
func (fr *Frame) sortDeclared(mi *ssa.MakeInterface, dt types.Type, less string, desc bool) Val {
	ex := fr.ex
	et := dt.Underlying().(*types.Slice).Elem()
	ls := leavesOf(et)
	if len(ls) != 1 {
		panic(oos("sort.Sort with a declared order on a multi-leaf element type %s", typeKey(et)))
	}
	dir := "ascending"
	if desc {
		dir = "descending"
	}
	ex.assumed["sort.Sort on "+typeKey(dt)+": result is a permutation of the input, "+dir+" by "+less+" (assumed; the type's Less is verified against that spec)"] = true
	s := fr.val(mi.X)
	key := "E." + typeKey(et) + "." + ls[0].Path
	srt := SArr(SInt, SArr(SInt, ls[0].Sort))
	a := ex.get(fr.st, key, srt)
	oldRow := ex.sc.Define("sort.old", SArr(SInt, ls[0].Sort), mkSelect(a, s.Fs[0].T))
	newRow := ex.sc.Fresh("sort.new", SArr(SInt, ls[0].Sort))
	perm := ex.sc.DeclareFun(ex.sc.fresh("sort.perm"), []Sort{SInt}, SInt)
	inv := ex.sc.DeclareFun(ex.sc.fresh("sort.inv"), []Sort{SInt}, SInt)
	off, ln := s.Fs[1].T, s.Fs[2].T
	hi := ex.sc.Define("sort.hi", SInt, mkApp("+", off, ln))
	inw := func(p string) string { return fmt.Sprintf("(and (<= %s %s) (< %s %s))", off, p, p, hi) }
	inr := func(j string) string { return fmt.Sprintf("(and (<= 0 %s) (< %s %s))", j, j, ln) }
	// perm/inv map relative positions [0, len) onto each other; element j afterwards is element perm(j) before
	fr.assume(fmt.Sprintf("(forall ((j Int)) (! (=> %s (and %s (= (%s (%s j)) j) (= (select %s %s) (select %s %s)))) :pattern ((%s j)) :pattern ((select %s %s))))",
		inr("j"), inr("("+perm+" j)"), inv, perm, newRow, ex.sidx(off, "j"), oldRow, ex.sidx(off, "("+perm+" j)"), perm, newRow, ex.sidx(off, "j")))
	fr.assume(fmt.Sprintf("(forall ((j Int)) (! (=> %s (and %s (= (%s (%s j)) j))) :pattern ((%s j))))",
		inr("j"), inr("("+inv+" j)"), perm, inv, inv))
	fr.assume(fmt.Sprintf("(forall ((p Int)) (! (=> (not %s) (= (select %s p) (select %s p))) :pattern ((select %s p))))", inw("p"), newRow, oldRow, newRow))
	ex.set(fr.st, key, srt, mkStore(a, s.Fs[0].T, newRow))
	fr.lastSort = &sortInfo{perm: perm, inv: inv, off: off, ln: ln}
	// order, stated in the contract language over the sorted slice
	cmp := less + "(sorted__[b], sorted__[a])"
	if desc {
		cmp = less + "(sorted__[a], sorted__[b])"
	}
	e := parseExpr("forall a int, b int :: 0 <= a && a < b && b < len(sorted__) ==> !"+cmp, 0)
	env := &Env{ex: ex, st: fr.st, vars: map[string]TV{"sorted__": {V: s, T: dt}}}
	fr.assume(env.evalBool(e))
	return vUnit
}

// ---- contracts at call sites -------------------------------------------------------

func (fr *Frame) applyContract(in ssa.CallInstruction, key string, fc *FuncContract, sig *types.Signature, this *TV, args []Val, fn *ssa.Function) Val {
	ex := fr.ex
	env := &Env{ex: ex, st: fr.st, old: nil, vars: map[string]TV{}, this: this}
	// parameter binding
	var names []string
	var ptypes []types.Type
	if fn != nil {
		for _, p := range fn.Params {
			names = append(names, p.Name())
			ptypes = append(ptypes, p.Type())
		}
	} else {
		ps := sig.Params()
		for i := 0; i < ps.Len(); i++ {
			n := ps.At(i).Name()
			if i < len(fc.ParamNames) {
				n = fc.ParamNames[i]
			}
			names = append(names, n)
			ptypes = append(ptypes, ps.At(i).Type())
		}
	}
	if len(names) != len(args) {
		panic(oos("contract %s: %d parameters for %d arguments", key, len(names), len(args)))
	}
	for i, n := range names {
		env.vars[n] = TV{V: args[i], T: ptypes[i]}
	}
	ord := fr.callOrd[in]
	site := fmt.Sprintf("%s#%d", key, ord)
	// requires
	if fr.top || true {
		localOnly := ex.fc != nil && ex.fc.LocalOnly
		if localOnly && len(fc.Requires) > 0 {
			ex.assumed["preconditions of the callees of "+ex.topFrame.fn.Name()+" are assumed, not checked (localonly: they would need a loop invariant)"] = true
		}
		if len(fc.Requires) > 0 && fr.top && fc.Kind == "func" && !localOnly {
			if co := ex.addOblig("cover", "call."+site, ex.prog.pos(in.Pos()), mkNot(fr.cur), "the contracted call is reachable"); co != nil {
				co.ExpectSat = true
			}
		}
		for _, c := range fc.Requires {
			g := fr.evalClause(env, c)
			lab := fmt.Sprintf("%s:%s", site, c.Label)
			if !fr.top {
				lab = fr.fn.Name() + ">" + lab
			}
			if !localOnly {
				ex.addOblig("pre@", lab, ex.prog.pos(in.Pos()), mkImp(fr.cur, g), c.Src)
			}
			fr.assume(g)
		}
	}
	old := fr.st.clone()
	// havoc the frame
	oldEnv := env.with(old)
	for i, m := range fc.Modifies {
		locs := fr.evalModLocs(oldEnv, m, fc, i)
		for _, ml := range locs {
			fr.havocLoc(ml)
		}
	}
	fr.bumpAlloc()
	// results
	var res Val = vUnit
	var errTag string
	rs := sig.Results()
	env2 := &Env{ex: ex, st: fr.st, old: old, vars: env.vars, this: this}
	if rs.Len() > 0 {
		vals := make([]Val, rs.Len())
		for i := 0; i < rs.Len(); i++ {
			v, facts := ex.freshVal(fr.st, rs.At(i).Type(), "res."+sanitize(key))
			fr.assumeAll(facts)
			vals[i] = v
			if v.K == VIface && i == rs.Len()-1 {
				errTag = v.Fs[0].T
			}
			tv := TV{V: v, T: rs.At(i).Type()}
			env2.vars[fmt.Sprintf("result%d", i)] = tv
			if n := rs.At(i).Name(); n != "" && n != "_" {
				if _, clash := env2.vars[n]; !clash {
					env2.vars[n] = tv
				}
			}
		}
		env2.vars["result"] = TV{V: vals[0], T: rs.At(0).Type()}
		// A returned object that the callee allocated: its fields are whatever the callee stored there,
		// not what the caller's (older) heap arrays held at that index.
		allocOld := ex.get(old, allocKey, SInt)
		for i := 0; i < rs.Len(); i++ {
			pt, ok := rs.At(i).Type().Underlying().(*types.Pointer)
			if !ok || vals[i].K != VPtr || vals[i].P.Root != "obj" || vals[i].P.Path != "" {
				continue
			}
			if _, isS := pt.Elem().Underlying().(*types.Struct); !isS {
				continue
			}
			cond := mkApp(">", ptrRef(vals[i].P), allocOld)
			before := fr.st.clone()
			fv, facts := ex.freshVal(fr.st, pt.Elem(), "fresh."+sanitize(key))
			ex.store(fr.st, vals[i].P, pt.Elem(), fv)
			fr.st = ex.mergeStates([]string{cond, "true"}, []*State{fr.st, before})
			env2.st = fr.st
			if len(facts) > 0 {
				fr.assume(mkImp(cond, mkAnd(facts...)))
			}
		}
		if rs.Len() == 1 {
			res = vals[0]
		} else {
			res = Val{K: VTuple, Fs: vals}
		}
	}
	for _, n := range fc.Fresh {
		if tv, ok := env2.vars[n]; ok {
			var r string
			switch tv.V.K {
			case VPtr:
				r = ptrRef(tv.V.P)
			case VIface:
				r = tv.V.Fs[1].T
			case VSlice:
				r = tv.V.Fs[0].T
			case VInt:
				r = tv.V.T
			}
			if r != "" {
				fr.assume(mkOr(mkEq(r, "0"), mkApp(">", r, ex.get(old, allocKey, SInt))))
			}
		}
	}
	for _, c := range fc.Ensures {
		if c.OnPanic || usesGhostFuncs(c.E) {
			// clauses about the callee's ghost enumeration/permutation are not visible to callers
			continue
		}
		fr.assume(fr.evalClause(env2, c))
	}
	// crash points: after every durable write (a call of an assumed interface
	// contract that modifies its ghost model) the function's crash invariants must hold
	if fc.Kind == "interface" && len(fc.Modifies) > 0 && ex.fc != nil && len(ex.fc.Crash) > 0 && ex.topFrame != nil {
		tf := ex.topFrame
		cenv := tf.topEnv(fr.st)
		cenv.old = ex.entry
		where := site
		if !fr.top {
			where = fr.fn.Name() + ">" + site
		}
		for _, c := range ex.fc.Crash {
			g := fr.evalClause(cenv, c)
			o := ex.addOblig("crash", c.Label+"@"+where, ex.prog.pos(in.Pos()), mkImp(fr.cur, g), "after this durable write: "+c.Src)
			if o != nil && errTag != "" {
				o.Observe = append(append([]Observable{}, o.Observe...), Observable{Name: "this_write_error_tag", Term: errTag})
			}
		}
	}
	return res
}

func (fr *Frame) evalModLocs(env *Env, m Expr, fc *FuncContract, i int) (locs []ModLoc) {
	defer func() {
		if r := recover(); r != nil {
			if ee, ok := r.(evalErr); ok {
				panic(oos("contract %s modifies %s: %s", fc.Key, fc.ModSrc[i], string(ee)))
			}
			panic(r)
		}
	}()
	return env.modLocs(m)
}

// restoreLocalCells: a callee cannot reach the local variables of its callers. After a whole-array
// havoc the cells of locals whose address never leaves the function (only loaded, stored, or captured by
// a closure that is only deferred) get their previous contents back.
func (fr *Frame) restoreLocalCells(saved *State) {
	ex := fr.ex
	for f := fr; f != nil; f = f.parent {
		for _, b := range f.fn.Blocks {
			for _, in := range b.Instrs {
				al, ok := in.(*ssa.Alloc)
				if !ok {
					continue
				}
				v, have := f.vals[al]
				if !have || v.K != VPtr || v.P.Root != "obj" || v.P.Path != "" {
					continue
				}
				private := true
				for _, ref := range *al.Referrers() {
					switch u := ref.(type) {
					case *ssa.Store:
						if u.Val == al {
							private = false
						}
					case *ssa.UnOp, *ssa.DebugRef:
					case *ssa.MakeClosure:
						for _, r2 := range *u.Referrers() {
							switch r2.(type) {
							case *ssa.Defer, *ssa.DebugRef:
							default:
								private = false
							}
						}
					default:
						private = false
					}
				}
				if !private {
					continue
				}
				et := al.Type().Underlying().(*types.Pointer).Elem()
				for _, l := range ptrLocs(v.P, et) {
					if len(l.Idx) != 1 {
						continue
					}
					if _, ok := saved.heap[l.Key]; !ok {
						continue
					}
					cur := ex.get(fr.st, l.Key, l.Sort)
					prev := ex.get(saved, l.Key, l.Sort)
					ex.set(fr.st, l.Key, l.Sort, mkStore(cur, l.Idx[0], mkSelect(prev, l.Idx[0])))
				}
			}
		}
	}
}

// havocLoc replaces the named locations by fresh values.
func (fr *Frame) havocLoc(ml ModLoc) {
	ex := fr.ex
	if ml.Whole {
		pre := strings.TrimSuffix(ml.Key, "*")
		saved := fr.st.clone()
		var ks []string
		for k := range ex.hsort {
			if strings.HasPrefix(k, pre) {
				ks = append(ks, k)
			}
		}
		sort.Strings(ks)
		for _, k := range ks {
			if k == allocKey {
				// the allocation counter only grows
				before := ex.get(fr.st, allocKey, SInt)
				ex.havocKey(fr.st, k)
				fr.assume(mkApp(">=", ex.get(fr.st, allocKey, SInt), before))
				continue
			}
			ex.havocKey(fr.st, k)
		}
		fr.st.wild = append(fr.st.wild, pre)
		fr.restoreLocalCells(saved)
		return
	}
	a := ex.get(fr.st, ml.Key, ml.Sort)
	srt := ml.Sort
	switch len(ml.Idx) {
	case 0:
		ex.havocKey(fr.st, ml.Key)
	case 1:
		ex.set(fr.st, ml.Key, ml.Sort, mkStore(a, ml.Idx[0], ex.sc.Fresh("hv", srt.elem())))
	case 2:
		row := mkSelect(a, ml.Idx[0])
		ex.set(fr.st, ml.Key, ml.Sort, mkStore(a, ml.Idx[0], mkStore(row, ml.Idx[1], ex.sc.Fresh("hv", srt.elem().elem()))))
	}
}

// localsAt: source-level local variables visible at an instruction (from the
// DebugRefs that dominate it, the closest one winning). at == nil: at the
// start of block ab.
func (fr *Frame) localsAt(at ssa.Instruction) map[string]TV {
	return fr.localsAtBlock(at.Block(), at)
}

func (fr *Frame) localsAtBlock(ab *ssa.BasicBlock, at ssa.Instruction) map[string]TV {
	out, _ := fr.localsAtSrc(ab, at)
	return out
}

// localsInLoop: the locals visible at instruction at, where a loop-carried variable whose most recent
// DebugRef on the dominator chain lies outside (before) the innermost enclosing loop takes its value at
// the head of the current iteration instead (the pre-loop binding is stale inside the loop).
func (fr *Frame) localsInLoop(at ssa.Instruction) map[string]TV {
	out, src := fr.localsAtSrc(at.Block(), at)
	var best *Loop
	for _, l := range fr.loops {
		if l.blocks[at.Block()] && (best == nil || len(l.blocks) < len(best.blocks)) {
			best = l
		}
	}
	if best == nil {
		// after a loop: a return dominated by a loop head
		return out
	}
	lc := fr.loopCtx[best.head]
	if lc == nil || lc.Prev == nil {
		return out
	}
	for n, tv := range lc.Prev {
		if b, ok := src[n]; ok && !best.blocks[b] {
			out[n] = tv
		}
	}
	return out
}

// localsSince: the locals bound by a DebugRef at or after the head of loop l on the dominator chain of
// at (bindings from before the loop are left to the loop context: they are stale for loop-carried variables).
func (fr *Frame) localsSince(at ssa.Instruction, l *Loop) map[string]TV {
	out, src := fr.localsAtSrc(at.Block(), at)
	for n, b := range src {
		if b != l.head && !l.head.Dominates(b) {
			delete(out, n)
		}
	}
	return out
}

func (fr *Frame) localsAtSrc(ab *ssa.BasicBlock, at ssa.Instruction) (map[string]TV, map[string]*ssa.BasicBlock) {
	out := map[string]TV{}
	src := map[string]*ssa.BasicBlock{}
	var chain []*ssa.BasicBlock
	for b := ab; b != nil; b = b.Idom() {
		chain = append(chain, b)
	}
	for i := len(chain) - 1; i >= 0; i-- {
		b := chain[i]
		for _, in := range b.Instrs {
			if in == at && at != nil {
				break
			}
			if b == ab && at == nil {
				if _, isPhi := in.(*ssa.Phi); !isPhi {
					if _, isDbg := in.(*ssa.DebugRef); !isDbg {
						break
					}
				}
			}
			if ph, isPhi := in.(*ssa.Phi); isPhi && ph.Comment != "" && ph.Comment != "rangeindex" {
				// a merge of different assignments to the variable: the phi carries the variable's name;
				// it supersedes any DebugRef seen earlier on the dominator chain
				if v, have := fr.vals[ph]; have {
					out[ph.Comment] = TV{V: v, T: ph.Type()}
					src[ph.Comment] = b
				}
				continue
			}
			dr, ok := in.(*ssa.DebugRef)
			if !ok {
				continue
			}
			obj, ok := dr.Object().(*types.Var)
			if !ok || obj.IsField() {
				continue
			}
			v, have := fr.vals[dr.X]
			switch dr.X.(type) {
			case *ssa.Const, *ssa.Global, *ssa.Function:
				v, have = fr.val(dr.X), true
			}
			if !have {
				continue
			}
			if dr.IsAddr {
				if v.K == VPtr {
					out[obj.Name()] = TV{V: fr.ex.load(fr.st, v.P, obj.Type()), T: obj.Type()}
					src[obj.Name()] = b
				}
				continue
			}
			out[obj.Name()] = TV{V: v, T: obj.Type()}
			src[obj.Name()] = b
		}
	}
	return out, src
}

// ---- inlining ------------------------------------------------------------------------

func (fr *Frame) inline(in ssa.CallInstruction, fn *ssa.Function, args []Val, binds []Val, rt types.Type) Val {
	ex := fr.ex
	if fr.depth >= maxInlineDepth {
		panic(oos("inlining too deep at %s", fn.Name()))
	}
	for p := fr; p != nil; p = p.parent {
		if p.fn == fn {
			panic(oos("recursive call of %s (needs a contract)", fn.Name()))
		}
	}
	ex.inlined[fn.RelString(ex.prog.SSA.Pkg)] = true
	// Waiting on a future: the goroutine that answers it fills in the future's
	// other fields first, so every field of the future object is unknown afterwards.
	if fn.RelString(ex.prog.SSA.Pkg) == "(*deferError).Error" && len(args) == 1 && args[0].K == VPtr && args[0].P.Root == "obj" && args[0].P.Path != "" {
		root := &Ptr{Root: "obj", Base: args[0].P.Base, Ref: args[0].P.Ref, Elem: args[0].P.Base}
		if _, isStruct := root.Base.Underlying().(*types.Struct); isStruct {
			ex.abstr["waiting on a future ("+typeKey(root.Base)+".Error): all fields of the future are havocked (filled in by the answering goroutine)"] = true
			v, facts := ex.freshVal(fr.st, root.Base, "future."+typeKey(root.Base))
			ex.store(fr.st, root, root.Base, v)
			fr.assumeAll(facts)
		}
	}
	nf := ex.newFrame(fn, fr)
	if len(nf.loops) > 0 {
		// loops of an inlined callee are over-approximated: everything they write is havocked
		ex.abstr["loop in inlined callee "+fn.RelString(ex.prog.SSA.Pkg)+": its effects are havocked (no invariant)"] = true
	}
	for i, p := range fn.Params {
		nf.vals[p] = args[i]
	}
	for i, fv := range fn.FreeVars {
		if i < len(binds) {
			nf.vals[fv] = binds[i]
		} else {
			panic(oos("closure %s called without its bindings", fn.Name()))
		}
	}
	nf.run(fr.cur, fr.st)
	// panics propagate
	fr.panics = append(fr.panics, nf.panics...)
	if len(nf.rets) == 0 {
		fr.cur = "false"
		if rt == nil {
			return vUnit
		}
		return zeroVal(rt)
	}
	reach, st, res := ex.mergeExits(nf.rets, fn.Signature.Results(), "ret."+fn.Name())
	fr.cur = reach
	fr.st = st
	switch len(res) {
	case 0:
		return vUnit
	case 1:
		return res[0]
	}
	return Val{K: VTuple, Fs: res}
}

func (ex *Exec) mergeExits(exits []Exit, rs *types.Tuple, name string) (string, *State, []Val) {
	conds := make([]string, len(exits))
	sts := make([]*State, len(exits))
	for i, e := range exits {
		conds[i] = e.reach
		sts[i] = e.st
	}
	reach := ex.sc.Define(name+".reach", SBool, mkOr(conds...))
	st := ex.mergeStates(conds, sts)
	var res []Val
	for j := 0; j < rs.Len(); j++ {
		vs := make([]Val, len(exits))
		for i, e := range exits {
			vs[i] = e.results[j]
		}
		res = append(res, ex.mergeVals(conds, vs, rs.At(j).Type(), fmt.Sprintf("%s.%d", name, j)))
	}
	return reach, st, res
}

func usesGhostFuncs(e Expr) bool {
	found := false
	var walk func(e Expr)
	walk = func(e Expr) {
		switch e := e.(type) {
		case *EHash:
			found = true
		case *EUnary:
			walk(e.X)
		case *EBinary:
			walk(e.X)
			walk(e.Y)
		case *ECall:
			for _, a := range e.Args {
				walk(a)
			}
		case *EIndex:
			walk(e.X)
			walk(e.I)
		case *ESliceE:
			walk(e.X)
			if e.Lo != nil {
				walk(e.Lo)
			}
			if e.Hi != nil {
				walk(e.Hi)
			}
		case *ESel:
			walk(e.X)
		case *EQuant:
			walk(e.Body)
		case *EStarAll:
			walk(e.X)
		}
	}
	walk(e)
	return found
}
