package main

import (
	"flag"
	"fmt"
	"os"
	"sort"
	"strings"
	"time"
)

func main() {
	if len(os.Args) < 2 {
		fmt.Fprintln(os.Stderr, "usage: govc verify|check|lemma ...")
		os.Exit(2)
	}
	switch os.Args[1] {
	case "verify":
		cmdVerify(os.Args[2:])
	case "check":
		cmdCheck(os.Args[2:])
	case "baseline":
		cmdBaseline(os.Args[2:])
	case "replay":
		cmdReplay(os.Args[2:])
	case "scenario":
		// govc scenario <function> <obligation-name>: run the scenario replay harness of a (known) finding on /repo
		o := &Oblig{Func: os.Args[2], Name: os.Args[3], Kind: "post"}
		if strings.Contains(o.Name, "#crash:") {
			o.Kind = "crash"
		}
		rp := replayers[o.Func]
		if rp == nil {
			fmt.Println("no replay harness for", o.Func)
			os.Exit(2)
		}
		name, src, ok := rp(map[string]string{}, o)
		if !ok {
			fmt.Println("harness needs a model")
			os.Exit(2)
		}
		out, failed := runOverlayTest("/repo", name, src)
		fmt.Println(out)
		if failed {
			fmt.Println("REPRODUCED on the real code")
			os.Exit(1)
		}
		fmt.Println("not reproduced")
	default:
		fmt.Fprintln(os.Stderr, "unknown command", os.Args[1])
		os.Exit(2)
	}
}

func contractsPath(repo string) string {
	p := repo + "/contracts_verif.go"
	if _, err := os.Stat(p); err == nil {
		return p
	}
	return "/verif/contracts/contracts_verif.go"
}

// cmdVerify: developer mode, verifies named functions/lemmas and prints every obligation.
func cmdVerify(args []string) {
	fs := flag.NewFlagSet("verify", flag.ExitOnError)
	repo := fs.String("repo", "/repo", "repository")
	cfile := fs.String("contracts", "", "contracts file")
	secs := fs.Int("t", 10, "per-obligation timeout (s)")
	dump := fs.String("dump", "", "keep SMT files in this directory")
	only := fs.String("only", "", "substring filter on obligation names")
	all := fs.Bool("all", false, "verify every function that has a contract")
	fs.Parse(args)
	t0 := time.Now()
	prog, err := loadProgram(*repo)
	if err != nil {
		fmt.Fprintln(os.Stderr, err)
		os.Exit(2)
	}
	cf := *cfile
	if cf == "" {
		cf = contractsPath(*repo)
	}
	ctr, err := parseContractsFile(cf)
	if err != nil {
		fmt.Fprintln(os.Stderr, err)
		os.Exit(2)
	}
	fmt.Printf("loaded in %.1fs\n", time.Since(t0).Seconds())
	names := fs.Args()
	if *all {
		for _, k := range ctr.Order {
			if ctr.Funcs[k].Kind == "func" {
				names = append(names, k)
			}
		}
		var ls []string
		for l := range ctr.Lemmas {
			ls = append(ls, "lemma:"+l)
		}
		sort.Strings(ls)
		names = append(names, ls...)
	}
	bad := 0
	for _, name := range names {
		var res *FuncResult
		if strings.HasPrefix(name, "lemma:") {
			res = verifyLemma(prog, ctr, strings.TrimPrefix(name, "lemma:"))
		} else {
			res = verifyFunctionH(prog, ctr, name, 5)
		}
		fmt.Printf("== %s: %d obligations\n", name, len(res.Obls))
		if res.Err != "" {
			fmt.Println("   ERROR:", res.Err)
			bad++
			continue
		}
		obls := res.Obls
		if *only != "" {
			var f []*Oblig
			for _, o := range obls {
				if strings.Contains(o.Name, *only) {
					f = append(f, o)
				}
			}
			obls = f
		}
		rs := solveAll(obls, *secs, false, 5, *dump)
		for _, o := range obls {
			r := rs[o]
			ok := (r.Status == "unsat" && !o.ExpectSat) || (r.Status == "sat" && o.ExpectSat)
			mark := "ok  "
			if !ok {
				mark = "FAIL"
				if o.ExpectSat && r.Status == "unknown" {
					mark = "?   "
				} else {
					bad++
				}
			}
			fmt.Printf("   %s %-60s %-8s %-7s %.2fs %dB\n", mark, o.Name, r.Status, r.Solver, r.Seconds, r.Bytes)
			if !ok && r.Status == "sat" {
				var ks []string
				for k, v := range r.Values {
					ks = append(ks, k+"="+v)
				}
				sort.Strings(ks)
				fmt.Println("        model:", strings.Join(ks, " "))
			}
			if !ok && r.Status != "sat" {
				fmt.Println("        ", r.Model, r.All)
			}
		}
		if len(res.Dropped) > 0 {
			fmt.Println("   dropped candidates:", strings.Join(res.Dropped, " "))
		}
		fmt.Printf("   candidates discharged: %d\n", res.Candidates)
		for _, a := range res.Abstr {
			fmt.Println("   abstraction:", a)
		}
		for _, a := range res.Externs {
			fmt.Println("   external:", a)
		}
		for _, a := range res.Assumed {
			fmt.Println("   assumed:", a)
		}
		if len(res.Inlined) > 0 {
			fmt.Println("   inlined:", strings.Join(res.Inlined, ", "))
		}
	}
	if bad > 0 {
		os.Exit(1)
	}
}
