package main

import (
	"fmt"
	"regexp"
	"strconv"
	"strings"
)

func init() {
	replayers["(*Raft).persistVote"] = replayPersistVote
	replayers["(*commitment).recalculate"] = replayRecalculate
	replayers["(*Raft).verifyLeader"] = replayVerifyLeader
	replayers["(*Raft).appendEntries"] = replayAppendEntries
	replayers["(*Raft).installSnapshot"] = replayInstallSnapshot
	replayers["NewRaft"] = replayNewRaft
	replayers["(*Raft).appendConfigurationEntry"] = replayAppendConfigurationEntry
	replayers["(*Raft).VerifyLeader"] = replayQueuedFuture
	replayers["(*Raft).ApplyLog"] = replayQueuedFuture
	replayers["(*Raft).Barrier"] = replayQueuedFuture
	replayers["(*Raft).initiateLeadershipTransfer"] = replayQueuedFuture
	replayers["(*Raft).Restore"] = replayRestoreNoop
}

func mInt(m map[string]string, k string, def int64) int64 {
	v, ok := m[k]
	if !ok {
		return def
	}
	v = strings.TrimSpace(strings.Trim(strings.ReplaceAll(v, " ", ""), "()"))
	n, err := strconv.ParseInt(v, 10, 64)
	if err != nil {
		// large unsigned values
		u, err2 := strconv.ParseUint(v, 10, 64)
		if err2 != nil {
			return def
		}
		return int64(u)
	}
	return n
}

func mUint(m map[string]string, k string, def uint64) uint64 {
	v, ok := m[k]
	if !ok {
		return def
	}
	v = strings.TrimSpace(strings.Trim(strings.ReplaceAll(v, " ", ""), "()"))
	u, err := strconv.ParseUint(v, 10, 64)
	if err != nil {
		return def
	}
	return u
}

func mBool(m map[string]string, k string) bool { return strings.TrimSpace(m[k]) == "true" }

var writeOrdRe = regexp.MustCompile(`@StableStore\.(SetUint64|Set)#(\d+)`)

// persistVote: crash/fault between the two durable writes of the vote record.
func replayPersistVote(m map[string]string, o *Oblig) (string, string, bool) {
	if o.Kind != "crash" {
		return "", "", false
	}
	mm := writeOrdRe.FindStringSubmatch(o.Name)
	if mm == nil {
		return "", "", false
	}
	// which durable write of persistVote (in program order) is the crash point
	writeNo := 0
	src := "the fault happens at StableStore." + mm[1] + " call #" + mm[2]
	_ = src
	// program order is resolved at run time by counting calls: crash point = after the n-th durable write
	// (SetUint64#1 and Set#1 are the two writes; their order is whatever the code does)
	failed := mInt(m, "this_write_error_tag", 0) != 0
	cand := func(id int64) string {
		if id == 0 {
			return `[]byte(nil)`
		}
		return fmt.Sprintf(`[]byte("cand-%d")`, id)
	}
	test := fmt.Sprintf(`package raft

import (
	"bytes"
	"errors"
	"testing"
)

type govcFaultStable struct {
	StableStore
	method string // "Set" or "SetUint64": the write at which the fault strikes
	fail   bool   // true: the write returns an error; false: the write succeeds and the process crashes right after
}

type govcCrash struct{}

func (s *govcFaultStable) Set(k, v []byte) error {
	if s.method == "Set" {
		if s.fail {
			return errors.New("injected stable-store failure")
		}
		_ = s.StableStore.Set(k, v)
		panic(govcCrash{})
	}
	return s.StableStore.Set(k, v)
}

func (s *govcFaultStable) SetUint64(k []byte, v uint64) error {
	if s.method == "SetUint64" {
		if s.fail {
			return errors.New("injected stable-store failure")
		}
		_ = s.StableStore.SetUint64(k, v)
		panic(govcCrash{})
	}
	return s.StableStore.SetUint64(k, v)
}

func TestGovcReplay(t *testing.T) {
	inner := NewInmemStore()
	curTerm, oldVoteTerm, term := uint64(%d), uint64(%d), uint64(%d)
	oldCand, newCand := %s, %s
	_ = inner.SetUint64(keyCurrentTerm, curTerm)
	_ = inner.SetUint64(keyLastVoteTerm, oldVoteTerm)
	if oldCand != nil {
		_ = inner.Set(keyLastVoteCand, oldCand)
	}
	r := &Raft{stable: &govcFaultStable{StableStore: inner, method: %q, fail: %v}}
	func() {
		defer func() {
			if x := recover(); x != nil {
				if _, ok := x.(govcCrash); !ok {
					panic(x)
				}
			}
		}()
		_ = r.persistVote(term, newCand)
	}()
	// the durable record as a restarted server would read it
	vt, _ := inner.GetUint64(keyLastVoteTerm)
	vc, _ := inner.Get(keyLastVoteCand)
	ct, _ := inner.GetUint64(keyCurrentTerm)
	t.Logf("durable state after the fault: CurrentTerm=%%d LastVoteTerm=%%d LastVoteCand=%%q (before: LastVoteTerm=%%d LastVoteCand=%%q; voting for %%q in term %%d)", ct, vt, vc, oldVoteTerm, oldCand, newCand, term)
	live := vt >= ct && vc != nil
	unchanged := vt == oldVoteTerm && bytes.Equal(vc, oldCand) && oldCand != nil
	isNew := vt == term && bytes.Equal(vc, newCand)
	if live && !(unchanged || isNew) {
		t.Fatalf("record_atomic violated: the durable vote record (term %%d, candidate %%q) is live but is neither the record from before the call nor the vote being cast", vt, vc)
	}
}
`, mUint(m, "old_cur_term", 5), mUint(m, "old_vote_term", 4), mUint(m, "term", 5), cand(mInt(m, "old_cand", 1)), cand(mInt(m, "new_cand", 2)), mm[1], failed)
	_ = writeNo
	return "TestGovcReplay", test, true
}

// recalculate: drive the real commitment with the model's match table.
func replayRecalculate(m map[string]string, o *Oblig) (string, string, bool) {
	n := int(mInt(m, "n", -1))
	if n < 1 || n > 64 {
		return "", "", false
	}
	var vals []string
	for i := 0; i < n; i++ {
		vals = append(vals, fmt.Sprintf("%d", mUint(m, fmt.Sprintf("m%d", i), 0)))
	}
	test := fmt.Sprintf(`package raft

import (
	"fmt"
	"testing"
)

func TestGovcReplay(t *testing.T) {
	vals := []uint64{%s}
	commitCh := make(chan struct{}, 1)
	c := &commitment{commitCh: commitCh, matchIndexes: map[ServerID]uint64{}, commitIndex: %d, startIndex: %d}
	for i, v := range vals {
		c.matchIndexes[ServerID(fmt.Sprintf("s%%d", i))] = v
	}
	old := c.commitIndex
	c.recalculate()
	t.Logf("match table %%v, commitIndex %%d -> %%d (startIndex %%d)", vals, old, c.commitIndex, c.startIndex)
	if c.commitIndex < old {
		t.Fatalf("monotone violated")
	}
	if c.commitIndex != old {
		holders := 0
		for _, v := range c.matchIndexes {
			if v >= c.commitIndex {
				holders++
			}
		}
		if 2*holders <= len(c.matchIndexes) {
			t.Fatalf("strict_majority violated: commit index %%d is held by %%d of %%d voters", c.commitIndex, holders, len(c.matchIndexes))
		}
		if c.commitIndex < c.startIndex {
			t.Fatalf("term_rule violated: commit index %%d below startIndex %%d", c.commitIndex, c.startIndex)
		}
	}
}
`, strings.Join(vals, ", "), mUint(m, "commit", 0), mUint(m, "start", 0))
	return "TestGovcReplay", test, true
}

// verifyLeader: a configuration with a non-voter that has a replication routine.
func replayVerifyLeader(m map[string]string, o *Oblig) (string, string, bool) {
	test := `package raft

import "testing"

func TestGovcReplay(t *testing.T) {
	latest := Configuration{Servers: []Server{
		{Suffrage: Voter, ID: "me", Address: "me"},
		{Suffrage: Voter, ID: "b", Address: "b"},
		{Suffrage: Voter, ID: "c", Address: "c"},
		{Suffrage: Nonvoter, ID: "d", Address: "d"},
	}}
	r := &Raft{}
	r.configurations.latest = latest
	r.verifyCh = make(chan *verifyFuture, 8)
	r.leaderState.notify = map[*verifyFuture]struct{}{}
	r.leaderState.replState = map[ServerID]*followerReplication{}
	for _, id := range []ServerID{"b", "c", "d"} {
		r.leaderState.replState[id] = &followerReplication{notify: map[*verifyFuture]struct{}{}, notifyCh: make(chan struct{}, 1)}
	}
	v := &verifyFuture{}
	v.init()
	r.verifyLeader(v)
	for id, repl := range r.leaderState.replState {
		if _, registered := repl.notify[v]; registered && !hasVote(latest, id) {
			// show the consequence: only the non-voter acknowledges
			repl.notifyAll(true)
			t.Fatalf("registered_only_with_voters violated: the verify request is registered with non-voter %q; after only that non-voter acknowledged: votes=%d quorumSize=%d (quorum reached: %v)", id, v.votes, v.quorumSize, int(v.votes) >= v.quorumSize)
		}
	}
}
`
	return "TestGovcReplay", test, true
}

// appendEntries: scenario for the cached-tail clause - a truncation followed by a failing StoreLogs.
func replayAppendEntries(m map[string]string, o *Oblig) (string, string, bool) {
	if !strings.Contains(o.Name, "tail_consistent") {
		return "", "", false
	}
	test := `package raft

import (
	"errors"
	"testing"
)

type govcFailStoreLogs struct {
	LogStore
	fail bool
}

func (s *govcFailStoreLogs) StoreLogs(logs []*Log) error {
	if s.fail {
		return errors.New("injected log-store failure")
	}
	return s.LogStore.StoreLogs(logs)
}

func TestGovcReplay(t *testing.T) {
	inner := NewInmemStore()
	shim := &govcFailStoreLogs{LogStore: inner}
	conf := DefaultConfig()
	conf.LocalID = "me"
	conf.skipStartup = true
	_, trans := NewInmemTransport("me")
	r, err := NewRaft(conf, &MockFSM{}, shim, inner, NewInmemSnapshotStore(), trans)
	if err != nil {
		t.Fatal(err)
	}
	// follower log: 1..10, entries 1-5 in term 1, 6-10 in term 2
	var logs []*Log
	for i := uint64(1); i <= 10; i++ {
		term := uint64(1)
		if i > 5 {
			term = 2
		}
		logs = append(logs, &Log{Index: i, Term: term, Type: LogNoop})
	}
	if err := inner.StoreLogs(logs); err != nil {
		t.Fatal(err)
	}
	r.setLastLog(10, 2)
	r.setCurrentTerm(3)
	// leader of term 3 sends (prev = 5/1) entries 6,7 of term 3: conflict at 6, the suffix 6..10 is deleted, then the write fails
	shim.fail = true
	req := &AppendEntriesRequest{RPCHeader: RPCHeader{ProtocolVersion: ProtocolVersionMax, ID: []byte("ldr"), Addr: []byte("ldr")}, Term: 3, PrevLogEntry: 5, PrevLogTerm: 1,
		Entries: []*Log{{Index: 6, Term: 3, Type: LogNoop}, {Index: 7, Term: 3, Type: LogNoop}}}
	respCh := make(chan RPCResponse, 1)
	rpc := RPC{Command: req, RespChan: respCh}
	r.appendEntries(rpc, req)
	resp := (<-respCh).Response.(*AppendEntriesResponse)
	li, lt := r.getLastLog()
	storeLast, _ := inner.LastIndex()
	t.Logf("success=%v cached tail=%d/%d store tail=%d", resp.Success, li, lt, storeLast)
	var l Log
	if li > 0 && inner.GetLog(li, &l) != nil {
		t.Fatalf("tail_consistent violated: the cached last log %d/%d names an entry the store no longer holds (store tail %d)", li, lt, storeLast)
	}
}
`
	return "TestGovcReplay", test, true
}

// installSnapshot: a follower whose log reaches past the installed snapshot.
func replayInstallSnapshot(m map[string]string, o *Oblig) (string, string, bool) {
	if !strings.Contains(o.Name, "handshake") {
		return "", "", false
	}
	test := `package raft

import (
	"bytes"
	"testing"
)

func TestGovcReplay(t *testing.T) {
	store := NewInmemStore()
	conf := DefaultConfig()
	conf.LocalID = "me"
	conf.skipStartup = true
	_, trans := NewInmemTransport("me")
	r, err := NewRaft(conf, &MockFSM{}, store, store, NewInmemSnapshotStore(), trans)
	if err != nil {
		t.Fatal(err)
	}
	go r.runFSM()
	defer close(r.shutdownCh)
	// follower log 1..20 in term 2 (a stale uncommitted suffix)
	var logs []*Log
	for i := uint64(1); i <= 20; i++ {
		logs = append(logs, &Log{Index: i, Term: 2, Type: LogNoop})
	}
	if err := store.StoreLogs(logs); err != nil {
		t.Fatal(err)
	}
	r.setLastLog(20, 2)
	r.setCurrentTerm(3)
	// the leader of term 3 installs its snapshot at 10/3
	buf, _ := encodeMsgPack([]*Log{})
	data := buf.Bytes()
	cfg := Configuration{Servers: []Server{{Suffrage: Voter, ID: "ldr", Address: "ldr"}, {Suffrage: Voter, ID: "me", Address: "me"}}}
	req := &InstallSnapshotRequest{RPCHeader: RPCHeader{ProtocolVersion: ProtocolVersionMax, ID: []byte("ldr"), Addr: []byte("ldr")}, SnapshotVersion: SnapshotVersionMax,
		Term: 3, LastLogIndex: 10, LastLogTerm: 3, Configuration: EncodeConfiguration(cfg), ConfigurationIndex: 1, Size: int64(len(data))}
	respCh := make(chan RPCResponse, 1)
	r.installSnapshot(RPC{Command: req, Reader: bytes.NewReader(data), RespChan: respCh}, req)
	out := <-respCh
	if out.Error != nil || !out.Response.(*InstallSnapshotResponse).Success {
		t.Skipf("install did not succeed: %v", out.Error)
	}
	li, lt := r.getLastEntry()
	t.Logf("installed snapshot 10/3; last entry advertised %d/%d", li, lt)
	// the leader's next request: previous entry = the snapshot it has just installed
	ae := &AppendEntriesRequest{RPCHeader: req.RPCHeader, Term: 3, PrevLogEntry: 10, PrevLogTerm: 3, Entries: []*Log{{Index: 11, Term: 3, Type: LogNoop}}}
	respCh2 := make(chan RPCResponse, 1)
	r.appendEntries(RPC{Command: ae, RespChan: respCh2}, ae)
	if !(<-respCh2).Response.(*AppendEntriesResponse).Success {
		t.Fatalf("handshake violated: InstallSnapshot(10/3) succeeded, yet AppendEntries with previous entry 10/3 is rejected (last entry still %d/%d)", li, lt)
	}
}
`
	return "TestGovcReplay", test, true
}

// NewRaft: restart with RestoreCommittedLogs and a configuration entry at or below the staged commit index.
func replayNewRaft(m map[string]string, o *Oblig) (string, string, bool) {
	if strings.Contains(o.Name, "start_up_queue_fits") {
		return "TestGovcReplay", replayNewRaftQueue, true
	}
	if !strings.Contains(o.Name, "config_scan_covers_log") {
		return "", "", false
	}
	test := `package raft

import "testing"

func TestGovcReplay(t *testing.T) {
	store := NewInmemCommitTrackingStore()
	cfg := Configuration{Servers: []Server{{Suffrage: Voter, ID: "me", Address: "me"}, {Suffrage: Voter, ID: "b", Address: "b"}}}
	logs := []*Log{
		{Index: 1, Term: 1, Type: LogConfiguration, Data: EncodeConfiguration(cfg)},
		{Index: 2, Term: 1, Type: LogCommand, Data: []byte("x")},
		{Index: 3, Term: 1, Type: LogCommand, Data: []byte("y")},
	}
	if err := store.StoreLogs(logs); err != nil {
		t.Fatal(err)
	}
	_ = store.StageCommitIndex(2)
	_ = store.SetUint64(keyCurrentTerm, 1)
	conf := DefaultConfig()
	conf.LocalID = "me"
	conf.skipStartup = true
	conf.RestoreCommittedLogs = true
	_, trans := NewInmemTransport("me")
	r, err := NewRaft(conf, &MockFSM{}, store, store, NewInmemSnapshotStore(), trans)
	if err != nil {
		t.Fatal(err)
	}
	t.Logf("after restart: lastApplied=%d commitIndex=%d latest configuration (index %d) = %+v", r.getLastApplied(), r.getCommitIndex(), r.configurations.latestIndex, r.configurations.latest.Servers)
	if len(r.configurations.latest.Servers) != 2 || r.configurations.latestIndex != 1 {
		t.Fatalf("config_scan_covers_log violated: the configuration entry at index 1 (<= replayed commit index 2) was skipped by the start-up scan; the server restarted with configuration %+v", r.configurations.latest.Servers)
	}
}
`
	return "TestGovcReplay", test, true
}

// appendConfigurationEntry: the leader's own write of the configuration entry fails.
func replayAppendConfigurationEntry(m map[string]string, o *Oblig) (string, string, bool) {
	if !strings.Contains(o.Name, "latest_only_if_stored") {
		return "", "", false
	}
	test := `package raft

import (
	"errors"
	"testing"
)

type govcFailStoreLogs2 struct {
	LogStore
	fail bool
}

func (s *govcFailStoreLogs2) StoreLogs(logs []*Log) error {
	if s.fail {
		return errors.New("disk full")
	}
	return s.LogStore.StoreLogs(logs)
}

func TestGovcReplay(t *testing.T) {
	inner := NewInmemStore()
	shim := &govcFailStoreLogs2{LogStore: inner}
	conf := DefaultConfig()
	conf.LocalID = "me"
	conf.skipStartup = true
	_, trans := NewInmemTransport("me")
	r, err := NewRaft(conf, &MockFSM{}, shim, inner, NewInmemSnapshotStore(), trans)
	if err != nil {
		t.Fatal(err)
	}
	cfg := Configuration{Servers: []Server{{Suffrage: Voter, ID: "me", Address: "me"}, {Suffrage: Voter, ID: "b", Address: "b"}, {Suffrage: Voter, ID: "c", Address: "c"}}}
	if err := inner.StoreLogs([]*Log{{Index: 1, Term: 1, Type: LogConfiguration, Data: EncodeConfiguration(cfg)}}); err != nil {
		t.Fatal(err)
	}
	r.setLastLog(1, 1)
	r.setCurrentTerm(1)
	r.setLatestConfiguration(cfg, 1)
	r.setCommittedConfiguration(cfg, 1)
	r.setState(Leader)
	r.setupLeaderState()
	// no replication goroutines in this harness
	r.leaderState.replState = map[ServerID]*followerReplication{}
	shim.fail = true
	fut := &configurationChangeFuture{req: configurationChangeRequest{command: RemoveServer, serverID: "c"}}
	fut.init()
	func() {
		defer func() { recover() }() // startStopReplication may touch transports that are not set up here
		r.appendConfigurationEntry(fut)
	}()
	last, _ := inner.LastIndex()
	t.Logf("future error=%v state=%v latestIndex=%d store.LastIndex=%d latest=%+v", fut.Error(), r.getState(), r.configurations.latestIndex, last, r.configurations.latest.Servers)
	if r.configurations.latestIndex > last {
		t.Fatalf("latest_only_if_stored violated: the configuration entry could not be stored (the future failed with %q) but the new configuration is installed as latest at index %d while the log ends at %d", fut.Error(), r.configurations.latestIndex, last)
	}
}
`
	return "TestGovcReplay", test, true
}

// API enqueue functions: after Shutdown the run loops are gone; a call whose select picks the (buffered)
// queue leaves a future nobody will serve. Without the shutdown escape its Error() blocks for ever.
func replayQueuedFuture(m map[string]string, o *Oblig) (string, string, bool) {
	if !strings.Contains(o.Name, "queued_future_has_shutdown_escape") {
		return "", "", false
	}
	var call string
	switch {
	case strings.Contains(o.Name, "VerifyLeader"):
		call = "r.VerifyLeader()"
	case strings.Contains(o.Name, "ApplyLog"):
		call = "r.ApplyLog(Log{Data: []byte(\"x\")}, 0)"
	case strings.Contains(o.Name, "Barrier"):
		call = "r.Barrier(0)"
	default:
		call = "r.LeadershipTransfer()"
	}
	test := `package raft

import (
	"testing"
	"time"
)

func TestGovcReplay(t *testing.T) {
	conf := DefaultConfig()
	conf.LocalID = "me"
	conf.BatchApplyCh = true // buffered applyCh (verifyCh and leadershipTransferCh are always buffered)
	store := NewInmemStore()
	_, trans := NewInmemTransport("me")
	r, err := NewRaft(conf, &MockFSM{}, store, store, NewInmemSnapshotStore(), trans)
	if err != nil {
		t.Fatal(err)
	}
	// a real server with its run loops; Shutdown waits until they have exited
	if err := r.Shutdown().Error(); err != nil {
		t.Fatal(err)
	}
	queued, stranded := 0, 0
	for i := 0; i < 40; i++ {
		f := ` + call + `
		if _, refused := f.(errorFuture); refused {
			continue
		}
		queued++
		done := make(chan error, 1)
		go func() { done <- f.Error() }()
		select {
		case err := <-done:
			if err != ErrRaftShutdown {
				t.Fatalf("future resolved with %v, want ErrRaftShutdown", err)
			}
		case <-time.After(300 * time.Millisecond):
			stranded++
			if stranded >= 3 {
				t.Fatalf("queued_future_has_shutdown_escape violated: after Shutdown, %d of %d calls were queued and %d of their futures never resolved (Error() still blocked after 300ms; nothing serves the queue and the future has no ShutdownCh)", queued, i+1, stranded)
			}
		}
	}
	if stranded > 0 {
		t.Fatalf("queued_future_has_shutdown_escape violated: %d stranded futures", stranded)
	}
	t.Logf("after Shutdown: %d calls queued, all resolved with ErrRaftShutdown", queued)
}
`
	return "TestGovcReplay", test, true
}

// NewRaft with RestoreCommittedLogs: the committed entries are replayed into the FSM queue (capacity 128
// batches) before the goroutine that serves it is started.
const replayNewRaftQueue = `package raft

import (
	"testing"
	"time"
)

func TestGovcReplay(t *testing.T) {
	store := NewInmemCommitTrackingStore()
	cfg := Configuration{Servers: []Server{{Suffrage: Voter, ID: "me", Address: "me"}}}
	logs := []*Log{{Index: 1, Term: 1, Type: LogConfiguration, Data: EncodeConfiguration(cfg)}}
	const n = 140 // more batches than the FSM queue holds (MaxAppendEntries is 1 below)
	for i := uint64(2); i <= n; i++ {
		logs = append(logs, &Log{Index: i, Term: 1, Type: LogCommand, Data: []byte("x")})
	}
	if err := store.StoreLogs(logs); err != nil {
		t.Fatal(err)
	}
	_ = store.StageCommitIndex(n)
	_ = store.SetUint64(keyCurrentTerm, 1)
	conf := DefaultConfig()
	conf.LocalID = "me"
	conf.MaxAppendEntries = 1
	conf.RestoreCommittedLogs = true
	_, trans := NewInmemTransport("me")
	done := make(chan error, 1)
	go func() {
		r, err := NewRaft(conf, &MockFSM{}, store, store, NewInmemSnapshotStore(), trans)
		if err == nil {
			defer r.Shutdown()
		}
		done <- err
	}()
	select {
	case err := <-done:
		if err != nil {
			t.Fatalf("NewRaft failed: %v", err)
		}
		t.Logf("NewRaft returned with %d committed entries to replay", n-1)
	case <-time.After(5 * time.Second):
		t.Fatalf("start_up_queue_fits violated: NewRaft has not returned after 5s: %d committed batches are replayed into the FSM queue (capacity 128) before the goroutine that serves it is started, so the %dth send blocks for ever", n-1, 129)
	}
}
`

// Restore: the server ingests the restore request, answers it, and shuts down before the trailing no-op is
// served. The no-op future sits on the buffered apply queue without a shutdown escape.
func replayRestoreNoop(m map[string]string, o *Oblig) (string, string, bool) {
	if !strings.Contains(o.Name, "queued_future_has_shutdown_escape") {
		return "", "", false
	}
	test := `package raft

import (
	"bytes"
	"testing"
	"time"
)

func TestGovcReplay(t *testing.T) {
	stranded := 0
	for round := 0; round < 12 && stranded == 0; round++ {
		conf := DefaultConfig()
		conf.LocalID = "me"
		conf.skipStartup = true // the harness plays the part of the main loop for exactly one request
		conf.BatchApplyCh = true
		store := NewInmemStore()
		_, trans := NewInmemTransport("me")
		r, err := NewRaft(conf, &MockFSM{}, store, store, NewInmemSnapshotStore(), trans)
		if err != nil {
			t.Fatal(err)
		}
		go func() {
			f := <-r.userRestoreCh // the leader loop ingests the restore ...
			f.respond(nil)         // ... completes it ...
			close(r.shutdownCh)    // ... and the server is shut down before the no-op is served
		}()
		done := make(chan error, 1)
		go func() {
			done <- r.Restore(&SnapshotMeta{Version: SnapshotVersionMax, Index: 1, Term: 1}, bytes.NewReader(nil), 0)
		}()
		select {
		case err := <-done:
			t.Logf("round %d: Restore returned %v", round, err)
		case <-time.After(500 * time.Millisecond):
			stranded++
		}
	}
	if stranded > 0 {
		t.Fatalf("queued_future_has_shutdown_escape violated: Restore still blocked 500ms after the server was shut down: its trailing no-op was queued on the buffered apply channel, nothing serves the queue and the future has no ShutdownCh")
	}
}
`
	return "TestGovcReplay", test, true
}
