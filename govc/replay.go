package main

import (
	"bytes"
	"context"
	"encoding/json"
	"fmt"
	"os"
	"os/exec"
	"path/filepath"
	"strings"
	"time"
)

// Replay is the content of a replay file.
type Replay struct {
	Property     string            `json:"property"`
	Obligation   string            `json:"obligation"`
	Position     string            `json:"position"`
	Clause       string            `json:"clause"`
	SolverAnswer string            `json:"solver_answer"`
	Solver       string            `json:"solver"`
	SolverOutput string            `json:"solver_output"`
	AllSolvers   map[string]string `json:"all_solvers"`
	Model        map[string]string `json:"model,omitempty"`
	Search       string            `json:"counterexample_search,omitempty"`
	Replayed     bool              `json:"replayed_on_real_code"`
	Test         string            `json:"generated_test,omitempty"`
	TestName     string            `json:"test_name,omitempty"`
	TestOutput   string            `json:"test_output,omitempty"`
	Note         string            `json:"note"`
	Baseline     string            `json:"baseline"`
}

// replayer builds a Go test (in package raft) from a model for one function.
type replayer func(model map[string]string, o *Oblig) (testName, testSrc string, ok bool)

var replayers = map[string]replayer{}

func buildReplay(prog *Program, repo, root, prop string, o *Oblig, r SolveResult, secs int) *Replay {
	rep := &Replay{Property: prop, Obligation: o.Name, Position: o.Pos, Clause: o.Src, SolverAnswer: r.Status, Solver: r.Solver,
		SolverOutput: truncate(r.Model, 4000), AllSolvers: r.All, Model: r.Values,
		Baseline: "this obligation is discharged on the pinned tree (see baseline_obligations.json)"}
	if o.ExpectSat {
		rep.Note = "vacuity guard: the precondition / return of this function became unreachable under its contract"
		return rep
	}
	rp := replayers[o.Func]
	if rp == nil {
		rep.Note = "no replay harness for " + o.Func + "; the failed obligation and the solver output are attached"
		return rep
	}
	model := r.Values
	if r.Status != "sat" {
		// no model from the verifier: bounded counterexample search for a concrete failing input
		m, how := searchCounterexample(o, secs)
		rep.Search = how
		model = m
	}
	if model == nil {
		// scenario-based harnesses can still exercise the clause on the real code
		model = map[string]string{}
	}
	rep.Model = model
	name, src, ok := rp(model, o)
	if !ok {
		rep.Note = "the model could not be turned into a concrete input"
		return rep
	}
	rep.Test, rep.TestName = src, name
	out, failed := runOverlayTest(repo, name, src)
	rep.TestOutput = truncate(out, 6000)
	rep.Replayed = failed
	if failed {
		rep.Note = "the generated test drives the real function with the model's input and the violated clause is false on the real result"
	} else {
		rep.Note = "the model did not reproduce on the real code (it may belong to an abstracted part)"
	}
	return rep
}

func truncate(s string, n int) string {
	if len(s) > n {
		return s[:n] + "...[truncated]"
	}
	return s
}

// runOverlayTest injects an in-package test without writing to the repository.
// Returns the output and whether the test FAILED (i.e. the violation reproduced).
func runOverlayTest(repo, name, src string) (string, bool) {
	dir, err := os.MkdirTemp("", "govc-replay-")
	if err != nil {
		return err.Error(), false
	}
	defer os.RemoveAll(dir)
	tf := filepath.Join(dir, "zz_govc_replay_test.go")
	if err := os.WriteFile(tf, []byte(src), 0o644); err != nil {
		return err.Error(), false
	}
	ov := map[string]map[string]string{"Replace": {filepath.Join(repo, "zz_govc_replay_test.go"): tf}}
	ob, _ := json.Marshal(ov)
	of := filepath.Join(dir, "overlay.json")
	_ = os.WriteFile(of, ob, 0o644)
	ctx, cancel := context.WithTimeout(context.Background(), 300*time.Second)
	defer cancel()
	cmd := exec.CommandContext(ctx, "go", "test", "-overlay", of, "-vet=off", "-count=1", "-timeout", "60s", "-run", "^"+name+"$", ".")
	cmd.Dir = repo
	cmd.Env = append(os.Environ(), "GOFLAGS=-mod=mod", "GOPROXY=off")
	var buf bytes.Buffer
	cmd.Stdout = &buf
	cmd.Stderr = &buf
	err = cmd.Run()
	out := buf.String()
	failed := err != nil && strings.Contains(out, "--- FAIL: "+name)
	return out, failed
}

func runBounded(root, repo string, b BoundedSpec) (bool, string, float64) {
	t0 := time.Now()
	src, err := os.ReadFile(filepath.Join(root, "bounded", b.Test))
	if err != nil {
		return false, err.Error(), 0
	}
	out, failed := runOverlayTest(repo, b.Run, string(src))
	ok := !failed && strings.Contains(out, "ok")
	return ok, out, time.Since(t0).Seconds()
}

// searchCounterexample: placeholder, replaced by the bounded expansion search.
func searchCounterexample(o *Oblig, secs int) (map[string]string, string) {
	return nil, "not attempted"
}

func cmdReplay(args []string) {
	if len(args) < 1 {
		fmt.Println("usage: govc replay <file>")
		os.Exit(2)
	}
	data, err := os.ReadFile(args[0])
	if err != nil {
		fmt.Println(err)
		os.Exit(2)
	}
	var rep Replay
	if err := json.Unmarshal(data, &rep); err != nil {
		fmt.Println(err)
		os.Exit(2)
	}
	fmt.Printf("obligation: %s\nclause: %s\nsolver: %s (%s)\n", rep.Obligation, rep.Clause, rep.SolverAnswer, rep.Solver)
	if rep.Test == "" {
		fmt.Println("no generated test in this replay file:", rep.Note)
		os.Exit(1)
	}
	out, failed := runOverlayTest("/repo", rep.TestName, rep.Test)
	fmt.Println(out)
	if failed {
		fmt.Println("REPRODUCED: the violated clause is false on the real code for this input")
		os.Exit(1)
	}
	fmt.Println("not reproduced on the current tree")
	os.Exit(0)
}
