package main

import (
	"fmt"
	"go/types"
	"sort"
	"strings"
)

// State maps heap keys to their current SMT term. A missing key means "the
// value at function entry" (key@0), declared lazily.
type State struct {
	heap   map[string]string
	suffix string   // name suffix of lazily declared versions ("@0" = function entry)
	wild   []string // key prefixes havocked wholesale: a first touch yields a fresh value, not the entry value
}

func newState() *State { return &State{heap: map[string]string{}} }

func (s *State) clone() *State {
	n := &State{heap: make(map[string]string, len(s.heap)), suffix: s.suffix, wild: append([]string{}, s.wild...)}
	for k, v := range s.heap {
		n.heap[k] = v
	}
	return n
}

const allocKey = "$alloc"

func (ex *Exec) entryName(key string) string { return sanitize(key) + "@0" }

// get returns the current term of a heap key.
func (ex *Exec) get(st *State, key string, srt Sort) string {
	if old, ok := ex.hsort[key]; ok {
		if old != srt {
			panic(fmt.Sprintf("heap key %s used at sorts %s and %s", key, old, srt))
		}
	} else {
		ex.hsort[key] = srt
	}
	if t, ok := st.heap[key]; ok {
		return t
	}
	for _, w := range st.wild {
		if strings.HasPrefix(key, w) {
			n := ex.sc.Fresh(key+"$w", srt)
			st.heap[key] = n
			if key != allocKey {
				ex.refAxiom(key, n, srt, ex.get(st, allocKey, SInt))
			}
			return n
		}
	}
	name := ex.entryName(key)
	allocName := ex.entryName(allocKey)
	if st.suffix != "" {
		name = sanitize(key) + st.suffix
		allocName = sanitize(allocKey) + st.suffix
	}
	if _, ok := ex.sc.declared[name]; !ok {
		ex.sc.Declare(name, srt)
		if key != allocKey {
			ex.refAxiom(key, name, srt, ex.sc.Declare(allocName, SInt))
		}
		if strings.HasPrefix(key, "M.") && strings.HasSuffix(key, ".card") {
			// the nil map is empty; cardinalities are non-negative
			ex.sc.Assume(fmt.Sprintf("(= (select %s 0) 0)", name))
			ex.sc.Assume(fmt.Sprintf("(forall ((m Int)) (! (>= (select %s m) 0) :pattern ((select %s m))))", name, name))
		}
		if strings.HasPrefix(key, "M.") && strings.HasSuffix(key, ".dom") {
			ex.sc.Assume(fmt.Sprintf("(= (select %s 0) ((as const (Array Int Bool)) false))", name))
		}
	}
	return name
}

// set gives a heap key a new value.
func (ex *Exec) set(st *State, key string, srt Sort, term string) {
	if old, ok := ex.hsort[key]; ok {
		if old != srt {
			panic(fmt.Sprintf("heap key %s used at sorts %s and %s", key, old, srt))
		}
	} else {
		ex.hsort[key] = srt
	}
	st.heap[key] = ex.sc.Define(key, srt, term)
	ex.written[key] = true
}

// havocKey replaces a heap key by a fresh unconstrained value.
func (ex *Exec) havocKey(st *State, key string) string {
	srt, ok := ex.hsort[key]
	if !ok {
		panic("havoc of unknown key " + key)
	}
	n := ex.sc.Fresh(key+"$h", srt)
	st.heap[key] = n
	ex.written[key] = true
	if key != allocKey {
		ex.refAxiom(key, n, srt, ex.get(st, allocKey, SInt))
	}
	return n
}

// refAxiom: every reference stored in a heap array was allocated before:
// it lies in [0, alloc]. (Quantified, pattern-guarded; one per array version
// that is not defined from another one.)
func (ex *Exec) refAxiom(key, name string, srt Sort, alloc string) {
	k := ex.kinds[key]
	lo, hi := "0", alloc
	switch k {
	case "ref", "slice.arr", "iface.ref":
	case "int":
		var ok bool
		lo, hi, ok = intRange(ex.leafTyp[key])
		if !ok {
			return
		}
	default:
		return
	}
	alloc = hi
	if k == "ref" && len(addressable) > 0 {
		if pt, ok := ex.leafTyp[key].(*types.Pointer); ok && addressableElem[typeKey(pt.Elem())] {
			lo = "" // pointers to addressable embedded fields are virtual (negative) references
		} else if ex.leafTyp[key] != nil {
			if pt, ok := ex.leafTyp[key].Underlying().(*types.Pointer); ok && addressableElem[typeKey(pt.Elem())] {
				lo = ""
			}
		}
	}
	if lo == "" {
		lo = "0"
	}
	if lo != "0" {
		switch srt {
		case SArr(SInt, SInt):
			ex.sc.Assume(fmt.Sprintf("(forall ((o Int)) (! (and (<= %s (select %s o)) (<= (select %s o) %s)) :pattern ((select %s o))))", lo, name, name, hi, name))
		case SArr(SInt, SArr(SInt, SInt)):
			ex.sc.Assume(fmt.Sprintf("(forall ((a Int) (p Int)) (! (and (<= %s (select (select %s a) p)) (<= (select (select %s a) p) %s)) :pattern ((select (select %s a) p))))", lo, name, name, hi, name))
		case SInt:
			ex.sc.Assume(fmt.Sprintf("(and (<= %s %s) (<= %s %s))", lo, name, name, hi))
		}
		return
	}
	switch srt {
	case SArr(SInt, SInt):
		ex.sc.Assume(fmt.Sprintf("(forall ((o Int)) (! (and (<= 0 (select %s o)) (<= (select %s o) %s)) :pattern ((select %s o))))", name, name, alloc, name))
	case SArr(SInt, SArr(SInt, SInt)):
		ex.sc.Assume(fmt.Sprintf("(forall ((a Int) (p Int)) (! (and (<= 0 (select (select %s a) p)) (<= (select (select %s a) p) %s)) :pattern ((select (select %s a) p))))", name, name, alloc, name))
	case SInt:
		ex.sc.Assume(fmt.Sprintf("(and (<= 0 %s) (<= %s %s))", name, name, alloc))
	}
}

// mergeStates builds the ite-merge of several states under edge conditions.
func (ex *Exec) mergeStates(conds []string, sts []*State) *State {
	if len(sts) == 1 {
		return sts[0].clone()
	}
	keys := map[string]bool{}
	for _, s := range sts {
		for k := range s.heap {
			keys[k] = true
		}
	}
	ks := make([]string, 0, len(keys))
	for k := range keys {
		ks = append(ks, k)
	}
	sort.Strings(ks)
	out := newState()
	seenW := map[string]bool{}
	for _, s := range sts {
		for _, w := range s.wild {
			if !seenW[w] {
				seenW[w] = true
				out.wild = append(out.wild, w)
			}
		}
	}
	out.suffix = sts[0].suffix
	for _, k := range ks {
		srt := ex.hsort[k]
		terms := make([]string, len(sts))
		same := true
		for i, s := range sts {
			if t, ok := s.heap[k]; ok {
				terms[i] = t
			} else {
				terms[i] = ex.sc.Declare(ex.entryName(k), srt)
			}
			if terms[i] != terms[0] {
				same = false
			}
		}
		if same {
			out.heap[k] = terms[0]
			continue
		}
		out.heap[k] = ex.sc.Define(k, srt, iteChain(conds, terms))
	}
	return out
}

func iteChain(conds, terms []string) string {
	t := terms[len(terms)-1]
	for i := len(terms) - 2; i >= 0; i-- {
		t = mkIte(conds[i], terms[i], t)
	}
	return t
}

// ---- addressing ---------------------------------------------------------

// Loc is one heap leaf location.
type Loc struct {
	Key  string
	Sort Sort     // sort of the whole heap array under Key
	Idx  []string // 0 (global), 1 (object) or 2 (array element) indices
	Leaf Leaf
}

func joinPath(a, b string) string {
	s := a + b
	return strings.TrimSuffix(s, ".")
}

// ptrLocs lists the leaf locations of a value of type t stored at p.
// Addressable embedded struct fields (declared with //@ addressable T.f): the
// field's leaves live in the heap arrays of the field's own type, at a virtual
// (negative) reference computed from the enclosing object's reference, so that a
// pointer &x.f can be stored in the heap and dereferenced like any *FieldType.
var addressable = map[string]int{}             // "T.f" -> ordinal
var addressableElem = map[string]bool{}        // typeKey of field types that have virtual objects
var addressableFieldType = map[string]string{} // "T.f" -> typeKey(field type)

// Every allocation has its own reference regardless of type, so an embedded
// addressable field can share the reference of its enclosing object: the
// field's leaves live in the arrays of the field's own type at that same
// reference (at most one addressable field per field type and container type).
func vref(k int, ref string) string {
	return ref
}

// addressableSplit: for an object of type base and a leaf path "f.rest", is f an addressable field?
func addressableSplit(base types.Type, full string) (k int, ftKey, rest string, ok bool) {
	i := strings.Index(full, ".")
	first := full
	if i >= 0 {
		first, rest = full[:i], full[i+1:]
	}
	key := typeKey(base) + "." + first
	k, ok = addressable[key]
	if !ok {
		return
	}
	return k, addressableFieldType[key], rest, true
}

func ptrLocs(p *Ptr, t types.Type) []Loc {
	ls := leavesOf(t)
	out := make([]Loc, len(ls))
	for i, l := range ls {
		switch p.Root {
		case "obj":
			full := joinPath(p.Path, l.Path)
			if len(addressable) > 0 {
				// redirect through (possibly nested) addressable embedded fields
				baseKey, path, hit := typeKey(p.Base), full, false
				for depth := 0; depth < 4; depth++ {
					i2 := strings.Index(path, ".")
					first := path
					if i2 >= 0 {
						first = path[:i2]
					}
					ft, ok := addressableFieldType[baseKey+"."+first]
					if !ok {
						break
					}
					hit = true
					baseKey = ft
					if i2 >= 0 {
						path = path[i2+1:]
					} else {
						path = ""
					}
				}
				if hit {
					out[i] = Loc{Key: "H." + baseKey + "." + path, Sort: SArr(SInt, l.Sort), Idx: []string{p.Ref}, Leaf: l}
					continue
				}
			}
			out[i] = Loc{Key: "H." + typeKey(p.Base) + "." + full, Sort: SArr(SInt, l.Sort), Idx: []string{p.Ref}, Leaf: l}
		case "elem":
			out[i] = Loc{Key: "E." + typeKey(p.Base) + "." + joinPath(p.Path, l.Path), Sort: SArr(SInt, SArr(SInt, l.Sort)), Idx: []string{p.Ref, p.Idx}, Leaf: l}
		case "global":
			out[i] = Loc{Key: "G." + p.GName + "." + joinPath(p.Path, l.Path), Sort: l.Sort, Leaf: l}
		default:
			panic("bad ptr root " + p.Root)
		}
	}
	return out
}

func (ex *Exec) readLoc(st *State, l Loc) string {
	ex.kinds[l.Key] = l.Leaf.Kind
	ex.leafTyp[l.Key] = l.Leaf.Typ
	a := ex.get(st, l.Key, l.Sort)
	for _, i := range l.Idx {
		a = ex.sc.simpSelect(a, i)
	}
	return a
}

func (ex *Exec) writeLoc(st *State, l Loc, v string) {
	ex.kinds[l.Key] = l.Leaf.Kind
	ex.leafTyp[l.Key] = l.Leaf.Typ
	switch len(l.Idx) {
	case 0:
		ex.get(st, l.Key, l.Sort)
		ex.set(st, l.Key, l.Sort, v)
	case 1:
		a := ex.get(st, l.Key, l.Sort)
		ex.set(st, l.Key, l.Sort, mkStore(a, l.Idx[0], v))
	case 2:
		a := ex.get(st, l.Key, l.Sort)
		row := mkSelect(a, l.Idx[0])
		ex.set(st, l.Key, l.Sort, mkStore(a, l.Idx[0], mkStore(row, l.Idx[1], v)))
	}
}

// load reads a value of type t through p (no facts added).
func (ex *Exec) load(st *State, p *Ptr, t types.Type) Val {
	locs := ptrLocs(p, t)
	ts := make([]string, len(locs))
	for i, l := range locs {
		ts[i] = ex.readLoc(st, l)
	}
	v, _ := unflatten(t, ts)
	return v
}

func (ex *Exec) store(st *State, p *Ptr, t types.Type, v Val) {
	locs := ptrLocs(p, t)
	ts := flatten(v)
	if len(ts) != len(locs) {
		panic(fmt.Sprintf("store: %d leaves for %d locations (type %s, val %s)", len(ts), len(locs), t, v))
	}
	for i, l := range locs {
		ex.writeLoc(st, l, ts[i])
	}
}

// ---- maps -----------------------------------------------------------------

type mapKeys struct {
	dom  string
	card string
	vals []Loc // per value leaf: Key/Sort only
	vt   types.Type
	kt   types.Type
}

func mapHeap(mt *types.Map) mapKeys {
	k := "M." + typeKey(mt)
	mk := mapKeys{dom: k + ".dom", card: k + ".card", vt: mt.Elem(), kt: mt.Key()}
	kl := leavesOf(mt.Key())
	if len(kl) != 1 || kl[0].Sort != SInt {
		panic(oos("map key type %s is not a single Int leaf", mt.Key()))
	}
	for _, l := range leavesOf(mt.Elem()) {
		mk.vals = append(mk.vals, Loc{Key: k + ".val." + l.Path, Sort: SArr(SInt, SArr(SInt, l.Sort)), Leaf: l})
	}
	return mk
}

var domSort = SArr(SInt, SArr(SInt, SBool))
var cardSort = SArr(SInt, SInt)

func (ex *Exec) mapDom(st *State, mt *types.Map, m string) string {
	return mkSelect(ex.get(st, mapHeap(mt).dom, domSort), m)
}
func (ex *Exec) mapCard(st *State, mt *types.Map, m string) string {
	return mkSelect(ex.get(st, mapHeap(mt).card, cardSort), m)
}
func (ex *Exec) mapValRows(st *State, mt *types.Map, m string) []string {
	mk := mapHeap(mt)
	out := make([]string, len(mk.vals))
	for i, l := range mk.vals {
		ex.kinds[l.Key] = l.Leaf.Kind
		ex.leafTyp[l.Key] = l.Leaf.Typ
		out[i] = mkSelect(ex.get(st, l.Key, l.Sort), m)
	}
	return out
}
func (ex *Exec) mapLookup(st *State, mt *types.Map, m, k string) (Val, string) {
	rows := ex.mapValRows(st, mt, m)
	has := mkSelect(ex.mapDom(st, mt, m), k)
	ls := leavesOf(mt.Elem())
	ts := make([]string, len(rows))
	for i, r := range rows {
		// Go semantics: zero value when absent
		ts[i] = mkIte(has, mkSelect(r, k), zeroLeaf(ls[i]))
	}
	v, _ := unflatten(mt.Elem(), ts)
	return v, has
}
