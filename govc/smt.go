package main

import (
	"fmt"
	"math/big"
	"strings"
)

// Sort is an SMT-LIB sort, written out.
type Sort string

const (
	SInt  Sort = "Int"
	SBool Sort = "Bool"
)

func SArr(k, v Sort) Sort { return Sort("(Array " + string(k) + " " + string(v) + ")") }

func (s Sort) isArray() bool { return strings.HasPrefix(string(s), "(Array ") }

// elem returns the value sort of an array sort whose key sort is Int.
func (s Sort) elem() Sort {
	str := string(s)
	if !strings.HasPrefix(str, "(Array Int ") {
		panic("elem of non-array sort " + str)
	}
	return Sort(str[len("(Array Int ") : len(str)-1])
}

// Script accumulates declarations, definitions and (guarded) assumptions in
// program order. An obligation refers to a prefix of the script.
type Script struct {
	cmds     []string
	declared map[string]Sort
	defs     map[string]string // name -> defining term (define-fun)
	refSyms  map[string]bool   // parameter leaves of reference kind (<= alloc at entry)
	declLog  []string
	n        int
}

type bigInt = big.Int

var bigOne = big.NewInt(1)

func newScript() *Script {
	return &Script{declared: map[string]Sort{}, defs: map[string]string{}, refSyms: map[string]bool{}}
}

func (s *Script) fresh(prefix string) string {
	s.n++
	return fmt.Sprintf("%s!%d", sanitize(prefix), s.n)
}

func sanitize(x string) string {
	var b strings.Builder
	for _, r := range x {
		switch {
		case r >= 'a' && r <= 'z', r >= 'A' && r <= 'Z', r >= '0' && r <= '9', r == '_', r == '.', r == '!', r == '$', r == '@':
			b.WriteRune(r)
		case r == '*':
			b.WriteString("P")
		case r == '[', r == ']', r == '(', r == ')', r == ' ', r == '/', r == ',', r == '{', r == '}', r == ';':
			b.WriteRune('_')
		default:
			b.WriteRune('_')
		}
	}
	return b.String()
}

// Declare a free constant (idempotent).
func (s *Script) Declare(name string, sort Sort) string {
	if old, ok := s.declared[name]; ok {
		if old != sort {
			panic(fmt.Sprintf("redeclare %s: %s vs %s", name, old, sort))
		}
		return name
	}
	s.declared[name] = sort
	s.declLog = append(s.declLog, name)
	s.cmds = append(s.cmds, fmt.Sprintf("(declare-fun %s () %s)", name, sort))
	return name
}

// DeclareFun declares an uninterpreted function (idempotent).
func (s *Script) DeclareFun(name string, args []Sort, res Sort) string {
	sig := Sort(fmt.Sprintf("%v->%s", args, res))
	if old, ok := s.declared[name]; ok {
		if old != sig {
			panic(fmt.Sprintf("redeclare fun %s", name))
		}
		return name
	}
	s.declared[name] = sig
	s.declLog = append(s.declLog, name)
	as := make([]string, len(args))
	for i, a := range args {
		as[i] = string(a)
	}
	s.cmds = append(s.cmds, fmt.Sprintf("(declare-fun %s (%s) %s)", name, strings.Join(as, " "), res))
	return name
}

// Fresh declares a fresh free constant.
func (s *Script) Fresh(prefix string, sort Sort) string {
	return s.Declare(s.fresh(prefix), sort)
}

// Define introduces a named abbreviation for a term.
func (s *Script) Define(prefix string, sort Sort, term string) string {
	// keep atoms as they are
	if isAtom(term) {
		return term
	}
	name := s.fresh(prefix)
	s.declared[name] = sort
	s.declLog = append(s.declLog, name)
	s.defs[name] = term
	if sort.isArray() {
		// array-valued abbreviations are constants with a defining equation, so
		// that quantifier patterns mentioning them stay simple terms
		s.cmds = append(s.cmds, fmt.Sprintf("(declare-fun %s () %s)", name, sort), fmt.Sprintf("(assert (= %s %s))", name, term))
		return name
	}
	s.cmds = append(s.cmds, fmt.Sprintf("(define-fun %s () %s %s)", name, sort, term))
	return name
}

func (s *Script) Assume(term string) {
	if term == "true" {
		return
	}
	s.cmds = append(s.cmds, fmt.Sprintf("(assert %s)", term))
}

func (s *Script) Comment(c string) {
	s.cmds = append(s.cmds, "; "+strings.ReplaceAll(c, "\n", " "))
}

func (s *Script) Len() int { return len(s.cmds) }

func isAtom(t string) bool {
	return !strings.ContainsAny(t, " (")
}

// ---- term constructors -------------------------------------------------

func intLit(v *big.Int) string {
	if v.Sign() < 0 {
		return "(- " + new(big.Int).Neg(v).String() + ")"
	}
	return v.String()
}

func intLit64(v int64) string { return intLit(big.NewInt(v)) }

var (
	two64 = new(big.Int).Lsh(big.NewInt(1), 64)
	two63 = new(big.Int).Lsh(big.NewInt(1), 63)
)

func pow2(n uint) *big.Int { return new(big.Int).Lsh(big.NewInt(1), n) }

func mkApp(op string, args ...string) string {
	return "(" + op + " " + strings.Join(args, " ") + ")"
}

func mkAnd(args ...string) string {
	var out []string
	for _, a := range args {
		if a == "true" {
			continue
		}
		if a == "false" {
			return "false"
		}
		out = append(out, a)
	}
	switch len(out) {
	case 0:
		return "true"
	case 1:
		return out[0]
	}
	return mkApp("and", out...)
}

func mkOr(args ...string) string {
	var out []string
	for _, a := range args {
		if a == "false" {
			continue
		}
		if a == "true" {
			return "true"
		}
		out = append(out, a)
	}
	switch len(out) {
	case 0:
		return "false"
	case 1:
		return out[0]
	}
	return mkApp("or", out...)
}

func mkNot(a string) string {
	if a == "true" {
		return "false"
	}
	if a == "false" {
		return "true"
	}
	if strings.HasPrefix(a, "(not ") && balanced(a[5:len(a)-1]) {
		return a[5 : len(a)-1]
	}
	return mkApp("not", a)
}

func balanced(s string) bool {
	d := 0
	for _, c := range s {
		if c == '(' {
			d++
		} else if c == ')' {
			d--
			if d < 0 {
				return false
			}
		}
	}
	return d == 0
}

func mkImp(a, b string) string {
	if a == "true" {
		return b
	}
	if b == "true" || a == "false" {
		return "true"
	}
	return mkApp("=>", a, b)
}

func mkEq(a, b string) string {
	if a == b {
		return "true"
	}
	if isLit(a) && isLit(b) {
		return "false"
	}
	if (a == "true" && b == "false") || (a == "false" && b == "true") {
		return "false"
	}
	return mkApp("=", a, b)
}

func mkIte(c, a, b string) string {
	if c == "true" || a == b {
		return a
	}
	if c == "false" {
		return b
	}
	return mkApp("ite", c, a, b)
}

func mkSelect(a, i string) string   { return mkApp("select", a, i) }
func mkStore(a, i, v string) string { return mkApp("store", a, i, v) }

// sexprArgs splits "(op a b c)" into op and its top-level arguments.
func sexprArgs(t string) (string, []string) {
	if len(t) < 2 || t[0] != '(' || t[len(t)-1] != ')' {
		return "", nil
	}
	body := t[1 : len(t)-1]
	var parts []string
	depth, start := 0, -1
	for i := 0; i < len(body); i++ {
		c := body[i]
		switch {
		case c == '(':
			if depth == 0 && start < 0 {
				start = i
			}
			depth++
		case c == ')':
			depth--
			if depth == 0 {
				parts = append(parts, body[start:i+1])
				start = -1
			}
		case c == ' ':
			if depth == 0 && start >= 0 {
				parts = append(parts, body[start:i])
				start = -1
			}
		default:
			if depth == 0 && start < 0 {
				start = i
			}
		}
	}
	if start >= 0 {
		parts = append(parts, body[start:])
	}
	if len(parts) == 0 {
		return "", nil
	}
	return parts[0], parts[1:]
}

// distinctRefs: syntactically distinct references (two allocation results on
// one path, or an allocation result and a parameter reference).
func (s *Script) distinctRefs(a, b string) bool {
	if a == b {
		return false
	}
	fa, fb := strings.HasPrefix(a, "ref!"), strings.HasPrefix(b, "ref!")
	pa, pb := s.refSyms[a], s.refSyms[b]
	return (fa && fb) || (fa && pb) || (pa && fb)
}

// simpSelect performs select-over-store simplification along named store chains.
func (s *Script) simpSelect(arr, idx string) string {
	for i := 0; i < 64; i++ {
		t, ok := s.defs[arr]
		if !ok {
			break
		}
		op, args := sexprArgs(t)
		if op != "store" || len(args) != 3 {
			break
		}
		if args[1] == idx {
			return args[2]
		}
		if s.distinctRefs(args[1], idx) {
			arr = args[0]
			continue
		}
		break
	}
	return mkSelect(arr, idx)
}

func mkAdd(a, b string) string {
	if a == "0" {
		return b
	}
	if b == "0" {
		return a
	}
	return mkApp("+", a, b)
}

func mkSub(a, b string) string {
	if b == "0" {
		return a
	}
	return mkApp("-", a, b)
}
