package main

import (
	"fmt"
	"go/constant"
	"go/token"
	"go/types"
	"math/big"
	"os"
	"strings"
)

// TV is a typed symbolic value of the contract language.
type TV struct {
	V Val
	T types.Type // nil for type names
	// IsType marks a type name (for typeof comparisons).
	IsType bool
	// Math marks a mathematical (unbounded) integer.
	Math bool
}

type LoopCtx struct {
	IterCount string // term: number of completed iterations (#i)
	Enum      string // UF name for #key
	Card      string
	KeyT      types.Type
	Vars      map[string]TV // loop variables by source name
	Prev      map[string]TV // loop-carried variables at the head of the current iteration (prev(x))
}

type Env struct {
	ex    *Exec
	st    *State
	old   *State
	vars  map[string]TV
	loop  *LoopCtx
	this  *TV
	sort  *sortInfo
	inOld bool
}

func (env *Env) with(st *State) *Env {
	n := *env
	n.st = st
	return &n
}

func (env *Env) bind(name string, tv TV) *Env {
	n := *env
	n.vars = make(map[string]TV, len(env.vars)+1)
	for k, v := range env.vars {
		n.vars[k] = v
	}
	n.vars[name] = tv
	return &n
}

type evalErr string

// debugEqLeaves (GOVC_EQLEAVES, experiments only) truncates struct equality.
var debugEqLeaves = func() int {
	n := 0
	fmt.Sscanf(os.Getenv("GOVC_EQLEAVES"), "%d", &n)
	return n
}()

func efail(f string, a ...interface{}) {
	panic(evalErr(fmt.Sprintf(f, a...)))
}

var untypedInt = types.Typ[types.UntypedInt]
var untypedNil = types.Typ[types.UntypedNil]
var tBool = types.Typ[types.Bool]
var tInt = types.Typ[types.Int]

func (ex *Exec) resolveType(s string) types.Type {
	s = strings.TrimSpace(s)
	if t, ok := ex.typeCache[s]; ok {
		return t
	}
	if s == "mathint" {
		return untypedInt
	}
	if i := strings.Index(s, "."); i > 0 && !strings.ContainsAny(s, "[]*( ") {
		for _, imp := range ex.prog.Pkg.Types.Imports() {
			if imp.Name() == s[:i] {
				if tn, ok := imp.Scope().Lookup(s[i+1:]).(*types.TypeName); ok {
					ex.typeCache[s] = tn.Type()
					return tn.Type()
				}
			}
		}
	}
	tv, err := types.Eval(ex.prog.Fset, ex.prog.Pkg.Types, token.NoPos, s)
	if err != nil {
		// the expression may name imported packages: evaluate it in the scope of a file that imports them
		for _, f := range ex.prog.Pkg.Syntax {
			if tv2, err2 := types.Eval(ex.prog.Fset, ex.prog.Pkg.Types, f.End()-1, s); err2 == nil {
				tv, err = tv2, nil
				break
			}
		}
	}
	if err != nil {
		efail("cannot resolve type %q: %v", s, err)
	}
	if !tv.IsType() {
		efail("%q is not a type", s)
	}
	ex.typeCache[s] = tv.Type
	return tv.Type
}

// evalTypeArg evaluates an expression in type-argument position (typeis, cast): a package-level
// type name wins over a local variable of the same name (api.go: verifyFuture := &verifyFuture{}).
func (env *Env) evalTypeArg(e Expr) TV {
	if id, ok := e.(*EIdent); ok {
		if tn, ok := env.ex.prog.Pkg.Types.Scope().Lookup(id.Name).(*types.TypeName); ok {
			return TV{T: tn.Type(), IsType: true}
		}
	}
	if sel, ok := e.(*ESel); ok {
		// pkg.Type of an imported package
		if id, ok := sel.X.(*EIdent); ok {
			for _, imp := range env.ex.prog.Pkg.Types.Imports() {
				if imp.Name() == id.Name {
					if tn, ok := imp.Scope().Lookup(sel.F).(*types.TypeName); ok {
						return TV{T: tn.Type(), IsType: true}
					}
				}
			}
		}
	}
	return env.eval(e)
}

func isIntType(t types.Type) bool {
	if t == nil {
		return false
	}
	b, ok := t.Underlying().(*types.Basic)
	return ok && b.Info()&types.IsInteger != 0
}
func isStringType(t types.Type) bool {
	if t == nil {
		return false
	}
	b, ok := t.Underlying().(*types.Basic)
	return ok && b.Info()&types.IsString != 0
}
func isBoolType(t types.Type) bool {
	if t == nil {
		return false
	}
	b, ok := t.Underlying().(*types.Basic)
	return ok && b.Info()&types.IsBoolean != 0
}

func (env *Env) evalBool(e Expr) string {
	tv := env.eval(e)
	if tv.V.K != VBool {
		efail("expected a boolean expression, got %s", tv.V)
	}
	return tv.V.T
}

func (env *Env) evalInt(e Expr) string {
	tv := env.eval(e)
	if tv.V.K != VInt {
		efail("expected an integer expression, got %s", tv.V)
	}
	return tv.V.T
}

func (env *Env) eval(e Expr) TV {
	ex := env.ex
	switch e := e.(type) {
	case *EInt:
		return TV{V: vInt(intLit(e.V)), T: untypedInt}
	case *EStr:
		return TV{V: vInt(ex.strLit(e.S)), T: types.Typ[types.String]}
	case *EIdent:
		return env.evalIdent(e.Name)
	case *EUnary:
		switch e.Op {
		case "!":
			return TV{V: vBool(mkNot(env.evalBool(e.X))), T: tBool}
		case "-":
			x := env.eval(e.X)
			return TV{V: vInt(mkApp("-", x.V.T)), T: untypedInt}
		case "*":
			x := env.eval(e.X)
			if x.V.K != VPtr {
				efail("dereference of non-pointer")
			}
			return TV{V: ex.load(env.st, x.V.P, x.V.P.Elem), T: x.V.P.Elem}
		}
	case *EBinary:
		return env.evalBinary(e)
	case *ESel:
		return env.evalSel(e)
	case *EIndex:
		return env.evalIndex(e)
	case *ESliceE:
		x := env.eval(e.X)
		if x.V.K != VSlice {
			efail("slicing a non-slice")
		}
		lo, hi := "0", x.V.Fs[2].T
		if e.Lo != nil {
			lo = env.evalInt(e.Lo)
		}
		if e.Hi != nil {
			hi = env.evalInt(e.Hi)
		}
		return TV{V: Val{K: VSlice, Fs: []Val{x.V.Fs[0], vInt(ex.sidx(x.V.Fs[1].T, lo)), vInt(mkApp("-", hi, lo)), vInt(mkApp("-", x.V.Fs[3].T, lo))}}, T: x.T}
	case *ECall:
		return env.evalCall(e)
	case *EQuant:
		return env.evalQuant(e)
	case *EHash:
		return env.evalHash(e)
	}
	efail("cannot evaluate expression %T", e)
	return TV{}
}

func (env *Env) evalIdent(name string) TV {
	ex := env.ex
	if tv, ok := env.vars[name]; ok {
		return tv
	}
	if env.loop != nil {
		if tv, ok := env.loop.Vars[name]; ok {
			return tv
		}
	}
	switch name {
	case "true":
		return TV{V: vBool("true"), T: tBool}
	case "false":
		return TV{V: vBool("false"), T: tBool}
	case "nil":
		return TV{V: vInt("0"), T: untypedNil}
	case "this":
		if env.this != nil {
			return *env.this
		}
	case "MaxUint64":
		return TV{V: vInt(intLit(new(big.Int).Sub(two64, bigOne))), T: untypedInt}
	case "MaxInt63":
		return TV{V: vInt(intLit(new(big.Int).Sub(two63, bigOne))), T: untypedInt}
	}
	if gt, ok := ex.ctr.Ghosts[name]; ok {
		t := ex.resolveType(gt)
		return TV{V: ex.ghostVarLoad(env.st, name, t), T: t}
	}
	obj := ex.prog.Pkg.Types.Scope().Lookup(name)
	if obj == nil {
		obj = types.Universe.Lookup(name)
	}
	switch o := obj.(type) {
	case *types.Const:
		switch o.Val().Kind() {
		case constant.Int:
			v, _ := new(big.Int).SetString(o.Val().ExactString(), 10)
			return TV{V: vInt(intLit(v)), T: o.Type()}
		case constant.Bool:
			if constant.BoolVal(o.Val()) {
				return TV{V: vBool("true"), T: o.Type()}
			}
			return TV{V: vBool("false"), T: o.Type()}
		case constant.String:
			return TV{V: vInt(ex.strLit(constant.StringVal(o.Val()))), T: o.Type()}
		}
	case *types.Var:
		p := &Ptr{Root: "global", GName: name, Base: o.Type(), Elem: o.Type()}
		return TV{V: ex.load(env.st, p, o.Type()), T: o.Type()}
	case *types.TypeName:
		return TV{T: o.Type(), IsType: true}
	}
	efail("unknown identifier %q", name)
	return TV{}
}

func derefType(t types.Type) (types.Type, bool) {
	if p, ok := t.Underlying().(*types.Pointer); ok {
		return p.Elem(), true
	}
	return t, false
}

func (env *Env) evalSel(e *ESel) TV {
	ex := env.ex
	x := env.eval(e.X)
	if x.IsType {
		efail("selector on a type")
	}
	// ghost model field of an interface value
	if x.V.K == VIface {
		return env.ghostField(x, e.F)
	}
	bt, isPtr := derefType(x.T)
	st, ok := bt.Underlying().(*types.Struct)
	if !ok {
		efail("selector .%s on non-struct type %s", e.F, x.T)
	}
	obj, index, _ := types.LookupFieldOrMethod(bt, true, ex.prog.Pkg.Types, e.F)
	if obj == nil {
		// unexported field of a type from another package (e.g. atomic.Value.v)
		if n, ok := bt.(*types.Named); ok && n.Obj().Pkg() != nil {
			obj, index, _ = types.LookupFieldOrMethod(bt, true, n.Obj().Pkg(), e.F)
		}
	}
	fld, okf := obj.(*types.Var)
	if !okf || !fld.IsField() {
		efail("no field %s in %s", e.F, bt)
	}
	_ = st
	if isPtr {
		if x.V.K != VPtr {
			efail("pointer value expected for %s", x.T)
		}
		p := *x.V.P
		cur := bt
		for _, ix := range index {
			cs := cur.Underlying().(*types.Struct)
			f := cs.Field(ix)
			fname := f.Name()
			if fname == "_" {
				fname = fmt.Sprintf("_%d", ix)
			}
			if pt, isP := f.Type().Underlying().(*types.Pointer); isP && ix != index[len(index)-1] {
				// embedded pointer: load and continue
				q := p
				q.Path += fname + "."
				q.Elem = f.Type()
				v := ex.load(env.st, &q, f.Type())
				p = *v.P
				cur = pt.Elem()
				continue
			}
			p.Path += fname + "."
			p.Elem = f.Type()
			cur = f.Type()
		}
		return TV{V: ex.load(env.st, &p, p.Elem), T: p.Elem}
	}
	// struct value
	v := x.V
	cur := bt
	for _, ix := range index {
		if v.K != VStruct {
			efail("struct value expected")
		}
		cs := cur.Underlying().(*types.Struct)
		cur = cs.Field(ix).Type()
		v = v.Fs[ix]
		if v.K == VPtr && ix != index[len(index)-1] {
			pt := cur.Underlying().(*types.Pointer)
			v = ex.load(env.st, v.P, pt.Elem())
			cur = pt.Elem()
		}
	}
	return TV{V: v, T: cur}
}

// ghostField reads field f of the ghost model attached to an interface value.
func (env *Env) ghostField(x TV, f string) TV {
	ex := env.ex
	iname := typeKey(x.T)
	m := ex.ctr.Models[iname]
	if m == nil {
		efail("interface %s has no ghost model (field %s)", iname, f)
	}
	for _, fld := range m.Fields {
		if fld.Name != f {
			continue
		}
		ft := ex.resolveType(fld.Type)
		ref := x.V.Fs[1].T
		return TV{V: ex.ghostLoad(env.st, iname, f, ft, ref), T: ft}
	}
	efail("ghost model %s has no field %s", iname, f)
	return TV{}
}

// ghostLoad: map-typed ghost fields are mathematical maps.
func (ex *Exec) ghostLoad(st *State, iname, f string, ft types.Type, ref string) Val {
	if mt, ok := ft.Underlying().(*types.Map); ok {
		v := Val{K: VMMap, ElemT: mt.Elem()}
		for _, l := range leavesOf(mt.Elem()) {
			key := "GM." + iname + "." + f + "." + l.Path
			srt := SArr(SInt, SArr(SInt, l.Sort))
			ex.kinds[key] = l.Kind
			ex.leafTyp[key] = l.Typ
			v.Fs = append(v.Fs, vInt(mkSelect(ex.get(st, key, srt), ref)))
		}
		return v
	}
	ls := leavesOf(ft)
	ts := make([]string, len(ls))
	for i, l := range ls {
		key := "GM." + iname + "." + f + "." + l.Path
		ts[i] = mkSelect(ex.get(st, key, SArr(SInt, l.Sort)), ref)
	}
	v, _ := unflatten(ft, ts)
	return v
}

func (env *Env) evalIndex(e *EIndex) TV {
	ex := env.ex
	x := env.eval(e.X)
	i := env.eval(e.I)
	it := i.V.T
	if i.V.K == VPtr {
		it = ptrRef(i.V.P)
	}
	switch x.V.K {
	case VMMap:
		mt := x.T.Underlying().(*types.Map)
		ts := make([]string, len(x.V.Fs))
		for k, a := range x.V.Fs {
			ts[k] = mkSelect(a.T, it)
		}
		v, _ := unflatten(mt.Elem(), ts)
		return TV{V: v, T: mt.Elem()}
	case VSlice:
		et := x.T.Underlying().(*types.Slice).Elem()
		p := &Ptr{Root: "elem", Base: et, Ref: x.V.Fs[0].T, Idx: ex.sidx(x.V.Fs[1].T, it), Elem: et}
		return TV{V: ex.load(env.st, p, et), T: et}
	case VInt:
		if mt, ok := x.T.Underlying().(*types.Map); ok {
			v, _ := ex.mapLookup(env.st, mt, x.V.T, it)
			return TV{V: v, T: mt.Elem()}
		}
	case VArrV:
		at := x.T.Underlying().(*types.Array)
		ts := make([]string, len(x.V.Fs))
		for k, a := range x.V.Fs {
			ts[k] = mkSelect(a.T, it)
		}
		v, _ := unflatten(at.Elem(), ts)
		return TV{V: v, T: at.Elem()}
	}
	efail("cannot index value of type %v", x.T)
	return TV{}
}

func valEq(a, b Val) string {
	if a.K == VPtr && b.K == VPtr && (!ptrHasRef(a.P) || !ptrHasRef(b.P)) {
		// interior pointers: equal iff same shape and same root
		if a.P.Root != b.P.Root || a.P.Path != b.P.Path || a.P.GName != b.P.GName || typeKey(a.P.Base) != typeKey(b.P.Base) {
			return "false"
		}
		if a.P.Root == "elem" {
			return mkAnd(mkEq(a.P.Ref, b.P.Ref), mkEq(a.P.Idx, b.P.Idx))
		}
		return mkEq(a.P.Ref, b.P.Ref)
	}
	// nil comparisons for composite kinds
	fa, fb := flatten(a), flatten(b)
	if len(fa) != len(fb) {
		efail("comparing values of different shapes: %s vs %s", a, b)
	}
	cs := make([]string, len(fa))
	for i := range fa {
		cs[i] = mkEq(fa[i], fb[i])
	}
	if n := debugEqLeaves; n > 0 && len(cs) > n {
		cs = cs[:n]
	}
	return mkAnd(cs...)
}

func (env *Env) evalBinary(e *EBinary) TV {
	switch e.Op {
	case "&&":
		return TV{V: vBool(mkAnd(env.evalBool(e.X), env.evalBool(e.Y))), T: tBool}
	case "||":
		return TV{V: vBool(mkOr(env.evalBool(e.X), env.evalBool(e.Y))), T: tBool}
	case "==>":
		return TV{V: vBool(mkImp(env.evalBool(e.X), env.evalBool(e.Y))), T: tBool}
	case "<==>":
		return TV{V: vBool(mkEq(env.evalBool(e.X), env.evalBool(e.Y))), T: tBool}
	}
	x := env.eval(e.X)
	y := env.eval(e.Y)
	switch e.Op {
	case "==", "!=":
		var eq string
		switch {
		case x.IsType || y.IsType:
			efail("type used as a value")
		case y.T == untypedNil || x.T == untypedNil:
			v := x
			if x.T == untypedNil {
				v = y
			}
			eq = isNil(v.V)
		default:
			eq = valEq(x.V, y.V)
		}
		if e.Op == "!=" {
			eq = mkNot(eq)
		}
		return TV{V: vBool(eq), T: tBool}
	case "<", "<=", ">", ">=":
		if isStringType(x.T) || isStringType(y.T) {
			lt := func(a, b string) string { return mkApp(env.ex.strLtFun(), a, b) }
			var r string
			switch e.Op {
			case "<":
				r = lt(x.V.T, y.V.T)
			case ">":
				r = lt(y.V.T, x.V.T)
			case "<=":
				r = mkNot(lt(y.V.T, x.V.T))
			case ">=":
				r = mkNot(lt(x.V.T, y.V.T))
			}
			return TV{V: vBool(r), T: tBool}
		}
		if x.V.K != VInt || y.V.K != VInt {
			efail("ordering comparison on non-integers")
		}
		return TV{V: vBool(mkApp(e.Op, x.V.T, y.V.T)), T: tBool}
	case "+", "-", "*":
		if x.V.K != VInt || y.V.K != VInt {
			efail("arithmetic on non-integers")
		}
		return TV{V: vInt(mkApp(e.Op, x.V.T, y.V.T)), T: arithType(x.T, y.T), Math: true}
	case "/":
		return TV{V: vInt(env.ex.udiv(x.V.T, y.V.T)), T: arithType(x.T, y.T), Math: true}
	case "%":
		return TV{V: vInt(env.ex.umod(x.V.T, y.V.T)), T: arithType(x.T, y.T), Math: true}
	}
	efail("unsupported operator %s", e.Op)
	return TV{}
}

func arithType(a, b types.Type) types.Type {
	if a != nil && a != untypedInt {
		return a
	}
	if b != nil {
		return b
	}
	return untypedInt
}

func isNil(v Val) string {
	switch v.K {
	case VInt:
		return mkEq(v.T, "0")
	case VPtr:
		return mkEq(ptrRef(v.P), "0")
	case VSlice:
		return mkEq(v.Fs[0].T, "0")
	case VIface:
		return mkEq(v.Fs[0].T, "0")
	case VFunc:
		return "false"
	}
	efail("nil comparison on %s", v)
	return ""
}

func (env *Env) evalQuant(e *EQuant) TV {
	ex := env.ex
	n := env
	var binders, guards []string
	for _, qv := range e.Vars {
		t := ex.resolveType(qv.Type)
		ex.qn++
		name := fmt.Sprintf("%s$%d", qv.Name, ex.qn)
		ls := leavesOf(t)
		if len(ls) != 1 {
			efail("quantified variable %s must have a scalar type", qv.Name)
		}
		binders = append(binders, fmt.Sprintf("(%s %s)", name, ls[0].Sort))
		var v Val
		if ls[0].Sort == SBool {
			v = vBool(name)
		} else if _, isP := t.Underlying().(*types.Pointer); isP {
			v, _ = unflatten(t, []string{name})
			guards = append(guards, mkApp(">=", name, "0"))
		} else {
			v = vInt(name)
			if lo, hi, ok := intRange(t); ok && t != untypedInt {
				if !(t.Underlying().(*types.Basic).Kind() == types.Int) { // int-typed bound variables are mathematical
					guards = append(guards, mkApp("<=", lo, name), mkApp("<=", name, hi))
				}
			}
		}
		n = n.bind(qv.Name, TV{V: v, T: t})
	}
	body := n.evalBool(e.Body)
	g := mkAnd(guards...)
	var t string
	if e.Forall {
		t = fmt.Sprintf("(forall (%s) %s)", strings.Join(binders, " "), mkImp(g, body))
	} else {
		t = fmt.Sprintf("(exists (%s) %s)", strings.Join(binders, " "), mkAnd(g, body))
	}
	return TV{V: vBool(t), T: tBool}
}

func (env *Env) evalHash(e *EHash) TV {
	if e.Name == "perm" || e.Name == "inv" {
		if env.sort == nil || len(e.Args) != 1 {
			efail("#%s(j) needs a preceding sort.Sort call", e.Name)
		}
		f := env.sort.perm
		if e.Name == "inv" {
			f = env.sort.inv
		}
		// relative position j <-> absolute position off+j
		return TV{V: vInt(mkApp("-", mkApp(f, mkApp("+", env.sort.off, env.evalInt(e.Args[0]))), env.sort.off)), T: untypedInt}
	}
	if env.loop == nil && e.Name == "i" && env.ex.discover > 0 {
		// write discovery runs the loop body before the loop context exists; the value is irrelevant there
		return TV{V: vInt(env.ex.sc.Fresh("discover.i", SInt)), T: untypedInt}
	}
	if env.loop == nil {
		efail("#%s outside a loop invariant", e.Name)
	}
	switch e.Name {
	case "i":
		return TV{V: vInt(env.loop.IterCount), T: untypedInt}
	case "key":
		if env.loop.Enum == "" || len(e.Args) != 1 {
			efail("#key(j) needs a map-range loop")
		}
		kt := mkApp(env.loop.Enum, env.evalInt(e.Args[0]))
		if env.loop.KeyT != nil {
			v, _ := unflatten(env.loop.KeyT, []string{kt})
			return TV{V: v, T: env.loop.KeyT}
		}
		return TV{V: vInt(kt), T: nil}
	case "card":
		return TV{V: vInt(env.loop.Card), T: untypedInt}
	}
	efail("unknown #%s", e.Name)
	return TV{}
}

func (env *Env) evalCall(e *ECall) TV {
	ex := env.ex
	switch e.Fn {
	case "old":
		if env.old == nil {
			efail("old() not available here")
		}
		n := env.with(env.old)
		n.inOld = true
		return n.eval(e.Args[0])
	case "count":
		// count(k, n, P(k)): number of k in [0, n) with P(k); defined by an
		// uninterpreted function with its recursive unfolding as axioms
		if len(e.Args) != 3 {
			efail("count(k, n, P) expects three arguments")
		}
		id, ok := e.Args[0].(*EIdent)
		if !ok {
			efail("count: first argument must be the bound variable")
		}
		n := env.evalInt(e.Args[1])
		ex.qn++
		bv := fmt.Sprintf("%s$%d", id.Name, ex.qn)
		body := env.bind(id.Name, TV{V: vInt(bv), T: untypedInt}).evalBool(e.Args[2])
		canon := strings.ReplaceAll(body, bv, "?k")
		if ex.countCache == nil {
			ex.countCache = map[string]string{}
		}
		f, have := ex.countCache[canon]
		if have {
			if _, ok := ex.sc.declared[f]; !ok {
				have = false
			}
		}
		if !have {
			f = ex.sc.DeclareFun(ex.sc.fresh("count"), []Sort{SInt}, SInt)
			ex.countCache[canon] = f
			at := func(t string) string { return strings.ReplaceAll(canon, "?k", t) }
			ex.sc.Assume(fmt.Sprintf("(forall ((n Int)) (! (=> (<= n 0) (= (%s n) 0)) :pattern ((%s n))))", f, f))
			ex.sc.Assume(fmt.Sprintf("(forall ((n Int)) (! (=> (> n 0) (= (%s n) (+ (%s (- n 1)) (ite %s 1 0)))) :pattern ((%s n))))", f, f, at("(- n 1)"), f))
			ex.sc.Assume(fmt.Sprintf("(forall ((n Int)) (! (=> (>= n 0) (and (<= 0 (%s n)) (<= (%s n) n))) :pattern ((%s n))))", f, f, f))
			// some element satisfies P iff the count is positive (consequence by induction)
			if pt := firstApp(at("j")); pt != "" {
				ex.sc.Assume(fmt.Sprintf("(forall ((n Int) (j Int)) (! (=> (and (<= 0 j) (< j n) %s) (> (%s n) 0)) :pattern ((%s n) %s)))", at("j"), f, f, pt))
			}
		}
		return TV{V: vInt(mkApp(f, n)), T: untypedInt}
	case "len":
		x := env.eval(e.Args[0])
		switch x.V.K {
		case VSlice:
			return TV{V: x.V.Fs[2], T: tInt}
		case VInt:
			if isStringType(x.T) {
				return TV{V: vInt(ex.strLen(x.V.T)), T: tInt}
			}
			if mt, ok := x.T.Underlying().(*types.Map); ok {
				return TV{V: vInt(ex.mapCard(env.st, mt, x.V.T)), T: tInt}
			}
		}
		efail("len of %s", x.V)
	case "cap":
		x := env.eval(e.Args[0])
		if x.V.K == VSlice {
			return TV{V: x.V.Fs[3], T: tInt}
		}
		if _, ok := x.T.Underlying().(*types.Chan); ok && x.V.K == VInt {
			return TV{V: vInt(mkSelect(ex.get(env.st, "CH.cap", SArr(SInt, SInt)), x.V.T)), T: tInt}
		}
		efail("cap of %s", x.V)
	case "card":
		x := env.eval(e.Args[0])
		if mt, ok := x.T.Underlying().(*types.Map); ok && x.V.K == VInt {
			return TV{V: vInt(ex.mapCard(env.st, mt, x.V.T)), T: tInt}
		}
		efail("card of non-map")
	case "dom":
		x := env.eval(e.Args[0])
		k := env.eval(e.Args[1])
		if mt, ok := x.T.Underlying().(*types.Map); ok && x.V.K == VInt {
			return TV{V: vBool(mkSelect(ex.mapDom(env.st, mt, x.V.T), scalarTerm(k.V))), T: tBool}
		}
		efail("dom of non-map")
	case "arrayof":
		x := env.eval(e.Args[0])
		if x.V.K == VSlice {
			return TV{V: x.V.Fs[0], T: untypedInt}
		}
		efail("arrayof non-slice")
	case "offsetof":
		x := env.eval(e.Args[0])
		if x.V.K == VSlice {
			return TV{V: x.V.Fs[1], T: untypedInt}
		}
		efail("offsetof non-slice")
	case "ref":
		x := env.eval(e.Args[0])
		switch x.V.K {
		case VPtr:
			return TV{V: vInt(ptrRef(x.V.P)), T: untypedInt}
		case VIface:
			return TV{V: x.V.Fs[1], T: untypedInt}
		case VInt:
			return TV{V: x.V, T: untypedInt}
		}
		efail("ref of %s", x.V)
	case "min", "max":
		a := env.eval(e.Args[0])
		b := env.eval(e.Args[1])
		op := "<="
		if e.Fn == "max" {
			op = ">="
		}
		return TV{V: vInt(mkIte(mkApp(op, a.V.T, b.V.T), a.V.T, b.V.T)), T: arithType(a.T, b.T)}
	case "ite":
		c := env.evalBool(e.Args[0])
		a := env.eval(e.Args[1])
		b := env.eval(e.Args[2])
		fa, fb := flatten(a.V), flatten(b.V)
		ts := make([]string, len(fa))
		for i := range fa {
			ts[i] = mkIte(c, fa[i], fb[i])
		}
		t := a.T
		if t == untypedInt || t == untypedNil {
			t = b.T
		}
		v, _ := unflatten(t, ts)
		return TV{V: v, T: t}
	case "typeof":
		// typeof(x) == T is written typeis(x, T)
		efail("use typeis(x, T)")
	case "typeis":
		x := env.eval(e.Args[0])
		var tt types.Type
		if u, ok := e.Args[1].(*EUnary); ok && u.Op == "*" {
			inner := env.evalTypeArg(u.X)
			if !inner.IsType {
				efail("typeis: type expected")
			}
			tt = types.NewPointer(inner.T)
		} else {
			ty := env.evalTypeArg(e.Args[1])
			if !ty.IsType {
				efail("typeis(iface, Type) expected")
			}
			tt = ty.T
		}
		if x.V.K != VIface {
			efail("typeis(iface, Type) expected")
		}
		return TV{V: vBool(mkEq(x.V.Fs[0].T, ex.typeTag(tt))), T: tBool}
	case "content":
		x := env.eval(e.Args[0])
		if x.V.K != VSlice {
			efail("content of non-slice")
		}
		return TV{V: vInt(ex.bytesContent(env.st, x.V)), T: types.Typ[types.String]}
	case "sent":
		x := env.eval(e.Args[0])
		if _, ok := x.T.Underlying().(*types.Chan); !ok {
			efail("sent() of a non-channel")
		}
		return TV{V: vInt(mkSelect(ex.get(env.st, chSentKey(x.T), SArr(SInt, SInt)), x.V.T)), T: untypedInt}
	case "closed":
		// closed(ch): the channel has been closed (ghost flag set by the close builtin)
		x := env.eval(e.Args[0])
		if _, ok := x.T.Underlying().(*types.Chan); !ok {
			efail("closed() of a non-channel")
		}
		return TV{V: vBool(mkSelect(ex.get(env.st, "CH.closed", SArr(SInt, SBool)), x.V.T)), T: tBool}
	case "prev":
		// prev(x): the value the loop-carried local x had at the head of the current iteration;
		// a local the loop never assigns has the same value throughout
		id, ok := e.Args[0].(*EIdent)
		if !ok || len(e.Args) != 1 {
			efail("prev(x): x must be a local variable")
		}
		if env.loop != nil && env.loop.Prev != nil {
			if tv, ok := env.loop.Prev[id.Name]; ok {
				return tv
			}
		}
		if (env.loop == nil || env.loop.Prev == nil) && ex.discover == 0 {
			efail("prev(%s) outside a loop step clause or call-site assertion inside a loop", id.Name)
		}
		return env.evalIdent(id.Name)
	case "received":
		x := env.eval(e.Args[0])
		ct, ok := x.T.Underlying().(*types.Chan)
		if !ok {
			efail("received() of a non-channel")
		}
		return TV{V: vInt(mkSelect(ex.get(env.st, "CH.recv."+typeKey(ct.Elem()), SArr(SInt, SInt)), x.V.T)), T: untypedInt}
	case "lastsent", "lastreceived":
		x := env.eval(e.Args[0])
		if ct, ok := x.T.Underlying().(*types.Chan); ok {
			et := ct.Elem()
			pref := "CH.last."
			if e.Fn == "lastreceived" {
				pref = "CH.lastrecv."
			}
			{
				ls := leavesOf(et)
				ts := make([]string, len(ls))
				for i, l := range ls {
					key := pref + typeKey(et) + "." + l.Path
					ex.kinds[key] = l.Kind
					ex.leafTyp[key] = l.Typ
					ts[i] = mkSelect(ex.get(env.st, key, SArr(SInt, l.Sort)), x.V.T)
				}
				v, _ := unflatten(et, ts)
				return TV{V: v, T: et}
			}
		}
		efail("lastsent of a non-channel")
		return TV{}
	case "cast":
		// cast(x, T): the dynamic value of interface x viewed as T (meaningful when typeis(x, T))
		x := env.eval(e.Args[0])
		var ty types.Type
		if u, ok := e.Args[1].(*EUnary); ok && u.Op == "*" {
			inner := env.evalTypeArg(u.X)
			if !inner.IsType {
				efail("cast: type expected")
			}
			ty = types.NewPointer(inner.T)
		} else {
			tv := env.evalTypeArg(e.Args[1])
			if !tv.IsType {
				efail("cast: type expected")
			}
			ty = tv.T
		}
		if x.V.K != VIface {
			efail("cast of non-interface")
		}
		if _, isI := ty.Underlying().(*types.Interface); isI {
			return TV{V: x.V, T: ty}
		}
		return TV{V: ex.unbox(env.st, ty, x.V.Fs[1].T), T: ty}
	case "alloc":
		return TV{V: vInt(ex.get(env.st, allocKey, SInt)), T: untypedInt}
	case "isfresh":
		x := env.eval(e.Args[0])
		if env.old == nil {
			efail("isfresh needs an old state")
		}
		var r string
		switch x.V.K {
		case VPtr:
			r = ptrRef(x.V.P)
		case VSlice:
			r = x.V.Fs[0].T
		case VInt:
			r = x.V.T
		default:
			efail("isfresh of %s", x.V)
		}
		return TV{V: vBool(mkApp(">", r, ex.get(env.old, allocKey, SInt))), T: tBool}
	case "addr":
		// addr(x.f): the address of an lvalue as a pointer value
		p, pt := env.addrOf(e.Args[0])
		return TV{V: Val{K: VPtr, P: p}, T: types.NewPointer(pt)}
	case "lastnow":
		// the value returned by the most recent time.Now() executed by the function under verification
		// (its own body and inlined callees); arbitrary on a path that has not read the clock
		tt := ex.resolveType("time.Time")
		ls := leavesOf(tt)
		ts := make([]string, len(ls))
		for i, l := range ls {
			ts[i] = ex.get(env.st, "GG.lastnow."+l.Path, l.Sort)
		}
		v, _ := unflatten(tt, ts)
		return TV{V: v, T: tt}
	case "timesub":
		a := env.eval(e.Args[0])
		b := env.eval(e.Args[1])
		f := ex.sc.DeclareFun("time_sub", []Sort{SInt, SInt, SInt, SInt, SInt, SInt}, SInt)
		return TV{V: vInt(mkApp(f, append(flatten(a.V), flatten(b.V)...)...)), T: untypedInt}
	case "errmsg":
		x := env.eval(e.Args[0])
		if x.V.K != VIface {
			efail("errmsg of non-interface")
		}
		return TV{V: vInt(mkApp(ex.errMsgFun(), x.V.Fs[0].T, x.V.Fs[1].T)), T: types.Typ[types.String]}
	}
	// declared uninterpreted spec function
	if u, ok := ex.ctr.UFs[e.Fn]; ok {
		if len(u.Params) != len(e.Args) {
			efail("uf %s: %d arguments expected", e.Fn, len(u.Params))
		}
		var sorts []Sort
		var ts []string
		for i, a := range e.Args {
			pt := ex.resolveType(u.Params[i])
			ls := leavesOf(pt)
			if len(ls) != 1 {
				efail("uf %s: scalar parameters only", e.Fn)
			}
			sorts = append(sorts, ls[0].Sort)
			av := env.eval(a)
			ts = append(ts, scalarTerm(av.V))
		}
		rt := ex.resolveType(u.ResT)
		rl := leavesOf(rt)
		if len(rl) != 1 {
			efail("uf %s: scalar result only", e.Fn)
		}
		f := ex.sc.DeclareFun("uf."+e.Fn, sorts, rl[0].Sort)
		v, _ := unflatten(rt, []string{mkApp(f, ts...)})
		return TV{V: v, T: rt}
	}
	// integer conversions are the identity on mathematical integers
	if len(e.Args) == 1 {
		if obj := types.Universe.Lookup(e.Fn); obj != nil {
			if tn, ok := obj.(*types.TypeName); ok && isIntType(tn.Type()) {
				x := env.eval(e.Args[0])
				return TV{V: x.V, T: tn.Type()}
			}
		}
		if obj := ex.prog.Pkg.Types.Scope().Lookup(e.Fn); obj != nil {
			if tn, ok := obj.(*types.TypeName); ok {
				x := env.eval(e.Args[0])
				if x.V.K == VInt {
					return TV{V: x.V, T: tn.Type()}
				}
			}
		}
	}
	// spec function
	if sf, ok := ex.ctr.Specs[e.Fn]; ok {
		if len(sf.Params) != len(e.Args) {
			efail("spec %s: %d arguments expected", e.Fn, len(sf.Params))
		}
		n := &Env{ex: ex, st: env.st, old: env.old, vars: map[string]TV{}, loop: env.loop, this: env.this}
		// bound variables stay visible only via arguments
		for i, p := range sf.Params {
			a := env.eval(e.Args[i])
			pt := ex.resolveType(p.Type)
			if a.T == untypedInt || a.T == untypedNil || a.T == nil {
				a.T = pt
				if a.V.K == VInt {
					if _, isP := pt.Underlying().(*types.Pointer); isP {
						a.V, _ = unflatten(pt, []string{a.V.T})
					}
				}
			}
			n.vars[p.Name] = a
		}
		ex.specDepth++
		if ex.specDepth > 20 {
			efail("spec function recursion too deep (%s)", e.Fn)
		}
		r := n.eval(sf.Body)
		ex.specDepth--
		rt := ex.resolveType(sf.ResT)
		if r.T == untypedInt || r.T == nil {
			r.T = rt
		}
		return r
	}
	efail("unknown function %q in contract", e.Fn)
	return TV{}
}

// ---- modifies locations ------------------------------------------------------

// ModLoc is a set of heap locations named by a modifies clause.
type ModLoc struct {
	Key   string
	Sort  Sort
	Idx   []string // fixed leading indices; remaining dimensions are wholly included
	Whole bool     // the whole key (all objects)
}

func (env *Env) modLocs(e Expr) []ModLoc {
	ex := env.ex
	switch e := e.(type) {
	case *EStarAll:
		x := env.eval(e.X)
		switch x.V.K {
		case VSlice:
			et := x.T.Underlying().(*types.Slice).Elem()
			var out []ModLoc
			for _, l := range ptrLocs(&Ptr{Root: "elem", Base: et, Ref: x.V.Fs[0].T, Idx: "0", Elem: et}, et) {
				ex.get(env.st, l.Key, l.Sort)
				out = append(out, ModLoc{Key: l.Key, Sort: l.Sort, Idx: []string{x.V.Fs[0].T}})
			}
			return out
		case VInt:
			if mt, ok := x.T.Underlying().(*types.Map); ok {
				mk := mapHeap(mt)
				ex.get(env.st, mk.dom, domSort)
				ex.get(env.st, mk.card, cardSort)
				out := []ModLoc{{Key: mk.dom, Sort: domSort, Idx: []string{x.V.T}}, {Key: mk.card, Sort: cardSort, Idx: []string{x.V.T}}}
				for _, l := range mk.vals {
					ex.get(env.st, l.Key, l.Sort)
					out = append(out, ModLoc{Key: l.Key, Sort: l.Sort, Idx: []string{x.V.T}})
				}
				return out
			}
		}
		efail("x[*] needs a slice or a map")
	case *EUnary:
		if e.Op == "*" {
			x := env.eval(e.X)
			if x.V.K != VPtr {
				efail("modifies *x: x is not a pointer")
			}
			var out []ModLoc
			for _, l := range ptrLocs(x.V.P, x.V.P.Elem) {
				ex.get(env.st, l.Key, l.Sort)
				out = append(out, ModLoc{Key: l.Key, Sort: l.Sort, Idx: l.Idx})
			}
			return out
		}
	case *ESel:
		x := env.eval(e.X)
		if x.V.K == VIface {
			iname := typeKey(x.T)
			m := ex.ctr.Models[iname]
			if m == nil {
				efail("no model for %s", iname)
			}
			for _, fld := range m.Fields {
				if fld.Name != e.F {
					continue
				}
				ft := ex.resolveType(fld.Type)
				var out []ModLoc
				if mt, ok := ft.Underlying().(*types.Map); ok {
					for _, l := range leavesOf(mt.Elem()) {
						key := "GM." + iname + "." + e.F + "." + l.Path
						srt := SArr(SInt, SArr(SInt, l.Sort))
						ex.get(env.st, key, srt)
						out = append(out, ModLoc{Key: key, Sort: srt, Idx: []string{x.V.Fs[1].T}})
					}
				} else {
					for _, l := range leavesOf(ft) {
						key := "GM." + iname + "." + e.F + "." + l.Path
						srt := SArr(SInt, l.Sort)
						ex.get(env.st, key, srt)
						out = append(out, ModLoc{Key: key, Sort: srt, Idx: []string{x.V.Fs[1].T}})
					}
				}
				return out
			}
			efail("no ghost field %s", e.F)
		}
		_ = x
		p, pt := env.addrOf(e)
		var out []ModLoc
		for _, l := range ptrLocs(p, pt) {
			ex.get(env.st, l.Key, l.Sort)
			out = append(out, ModLoc{Key: l.Key, Sort: l.Sort, Idx: l.Idx})
		}
		return out
	case *EIndex:
		x := env.eval(e.X)
		i := env.evalInt(e.I)
		if x.V.K == VSlice {
			et := x.T.Underlying().(*types.Slice).Elem()
			var out []ModLoc
			for _, l := range ptrLocs(&Ptr{Root: "elem", Base: et, Ref: x.V.Fs[0].T, Idx: ex.sidx(x.V.Fs[1].T, i), Elem: et}, et) {
				ex.get(env.st, l.Key, l.Sort)
				out = append(out, ModLoc{Key: l.Key, Sort: l.Sort, Idx: l.Idx})
			}
			return out
		}
		efail("modifies x[i]: x must be a slice")
	case *ECall:
		if e.Fn == "sent" || e.Fn == "received" {
			x := env.eval(e.Args[0])
			if _, ok := x.T.Underlying().(*types.Chan); !ok {
				efail("sent() of a non-channel")
			}
			sk := chSentKey(x.T)
			pref := "CH.last."
			if e.Fn == "received" {
				sk = "CH.recv." + typeKey(x.T.Underlying().(*types.Chan).Elem())
				pref = "CH.lastrecv."
			}
			ex.get(env.st, sk, SArr(SInt, SInt))
			out := []ModLoc{{Key: sk, Sort: SArr(SInt, SInt), Idx: []string{x.V.T}}}
			if ct, ok := x.T.Underlying().(*types.Chan); ok {
				for _, l := range leavesOf(ct.Elem()) {
					key := pref + typeKey(ct.Elem()) + "." + l.Path
					ex.kinds[key] = l.Kind
					ex.leafTyp[key] = l.Typ
					ex.get(env.st, key, SArr(SInt, l.Sort))
					out = append(out, ModLoc{Key: key, Sort: SArr(SInt, l.Sort), Idx: []string{x.V.T}})
				}
			}
			return out
		}
		if e.Fn == "boxes" {
			return []ModLoc{{Key: "B.*", Whole: true}}
		}
		if e.Fn == "allof" && len(e.Args) == 1 {
			// allof("H.logFuture."): every heap array whose key starts with the prefix
			if sl, ok := e.Args[0].(*EStr); ok {
				return []ModLoc{{Key: sl.S + "*", Whole: true}}
			}
		}
	case *EIdent:
		if gt, ok := ex.ctr.Ghosts[e.Name]; ok {
			var out []ModLoc
			for _, gl := range ex.ghostVarLocs(ex.resolveType(gt), e.Name) {
				ex.get(env.st, gl.Key, gl.Sort)
				out = append(out, ModLoc{Key: gl.Key, Sort: gl.Sort})
			}
			return out
		}
		// a global variable
		obj := ex.prog.Pkg.Types.Scope().Lookup(e.Name)
		if v, ok := obj.(*types.Var); ok {
			var out []ModLoc
			for _, l := range ptrLocs(&Ptr{Root: "global", GName: e.Name, Base: v.Type(), Elem: v.Type()}, v.Type()) {
				ex.get(env.st, l.Key, l.Sort)
				out = append(out, ModLoc{Key: l.Key, Sort: l.Sort})
			}
			return out
		}
	}
	efail("unsupported modifies location")
	return nil
}

// firstApp returns a sub-term usable as a pattern (the first application
// containing the bound variable position), falling back to the whole term.
// firstApp picks a sub-term of t usable in a quantifier pattern: the first application whose head is not
// a logical or arithmetic connective and that mentions the bound variable j.
func firstApp(t string) string {
	banned := map[string]bool{"or": true, "and": true, "not": true, "=>": true, "=": true, "<=": true, "<": true, ">=": true, ">": true,
		"+": true, "-": true, "*": true, "ite": true, "distinct": true, "div": true, "mod": true}
	var pick func(t string) string
	pick = func(t string) string {
		head, args := sexprArgs(t)
		if head == "" {
			return ""
		}
		if !banned[head] {
			if strings.Contains(t, " j)") || strings.Contains(t, " j ") {
				return t
			}
			return ""
		}
		for _, a := range args {
			if r := pick(a); r != "" {
				return r
			}
		}
		return ""
	}
	if r := pick(t); r != "" {
		return r
	}
	return ""
}

// addrOf computes the address of an lvalue expression (x.f, x.f.g, *p, s[i]).
func (env *Env) addrOf(e Expr) (*Ptr, types.Type) {
	ex := env.ex
	switch e := e.(type) {
	case *EUnary:
		if e.Op == "*" {
			x := env.eval(e.X)
			if x.V.K != VPtr {
				efail("dereference of non-pointer")
			}
			return x.V.P, x.V.P.Elem
		}
	case *EIndex:
		x := env.eval(e.X)
		i := env.evalInt(e.I)
		if x.V.K == VSlice {
			et := x.T.Underlying().(*types.Slice).Elem()
			return &Ptr{Root: "elem", Base: et, Ref: x.V.Fs[0].T, Idx: ex.sidx(x.V.Fs[1].T, i), Elem: et}, et
		}
	case *ESel:
		// base: pointer value, or the address of an addressable struct
		var base Ptr
		var bt types.Type
		xv := func() (tv TV, ok bool) {
			defer func() {
				if r := recover(); r != nil {
					if _, isE := r.(evalErr); isE {
						ok = false
						return
					}
					panic(r)
				}
			}()
			return env.eval(e.X), true
		}
		if tv, ok := xv(); ok && tv.V.K == VPtr {
			if _, isP := tv.T.Underlying().(*types.Pointer); isP {
				base = *tv.V.P
				bt = tv.T.Underlying().(*types.Pointer).Elem()
			}
		}
		if bt == nil {
			p, t := env.addrOf(e.X)
			base, bt = *p, t
		}
		obj, index, _ := types.LookupFieldOrMethod(bt, true, ex.prog.Pkg.Types, e.F)
		if obj == nil {
			if n, ok := bt.(*types.Named); ok && n.Obj().Pkg() != nil {
				obj, index, _ = types.LookupFieldOrMethod(bt, true, n.Obj().Pkg(), e.F)
			}
		}
		if fld, ok := obj.(*types.Var); !ok || !fld.IsField() {
			efail("no field %s in %s", e.F, bt)
		}
		cur := bt
		for _, ix := range index {
			cs, ok := cur.Underlying().(*types.Struct)
			if !ok {
				efail("field path through non-struct %s", cur)
			}
			f := cs.Field(ix)
			name := f.Name()
			if name == "_" {
				name = fmt.Sprintf("_%d", ix)
			}
			base.Path += name + "."
			base.Elem = f.Type()
			cur = f.Type()
		}
		return &base, cur
	}
	efail("not an addressable location")
	return nil, nil
}

// global ghost variables live under the keys GG.<name>.<leaf>; map-typed ones are mathematical maps.
func (ex *Exec) ghostVarLocs(t types.Type, name string) []Loc {
	var out []Loc
	if mt, ok := t.Underlying().(*types.Map); ok {
		for _, l := range leavesOf(mt.Elem()) {
			out = append(out, Loc{Key: "GG." + name + "." + l.Path, Sort: SArr(SInt, l.Sort), Leaf: l})
		}
		return out
	}
	for _, l := range leavesOf(t) {
		out = append(out, Loc{Key: "GG." + name + "." + l.Path, Sort: l.Sort, Leaf: l})
	}
	return out
}

func (ex *Exec) ghostVarLoad(st *State, name string, t types.Type) Val {
	locs := ex.ghostVarLocs(t, name)
	if mt, ok := t.Underlying().(*types.Map); ok {
		v := Val{K: VMMap, ElemT: mt.Elem()}
		for _, l := range locs {
			v.Fs = append(v.Fs, vInt(ex.get(st, l.Key, l.Sort)))
		}
		return v
	}
	ts := make([]string, len(locs))
	for i, l := range locs {
		ts[i] = ex.get(st, l.Key, l.Sort)
	}
	v, _ := unflatten(t, ts)
	return v
}
