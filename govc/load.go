package main

import (
	"fmt"
	"go/ast"
	"go/token"
	"go/types"
	"os"
	"sort"
	"strings"

	"golang.org/x/tools/go/packages"
	"golang.org/x/tools/go/ssa"
	"golang.org/x/tools/go/ssa/ssautil"
)

// Program is the loaded raft package (real code from the repository's
// working tree) with its SSA form.
type Program struct {
	Fset  *token.FileSet
	Pkg   *packages.Package
	SSA   *ssa.Package
	Prog  *ssa.Program
	Funcs map[string]*ssa.Function // key: RelString, e.g. "(*commitment).recalculate", "nextConfiguration"
	// ErrGlobals are package-level error variables initialised by errors.New /
	// fmt.Errorf; they are assumed non-nil and pairwise distinct.
	ErrGlobals map[string]bool
}

const raftPath = "github.com/hashicorp/raft"

func loadProgram(dir string) (*Program, error) {
	cfg := &packages.Config{
		Mode:       packages.LoadAllSyntax,
		Dir:        dir,
		BuildFlags: []string{"-tags=verif"},
		Env:        append(os.Environ(), "GOFLAGS=-mod=mod", "GOPROXY=off"),
	}
	pkgs, err := packages.Load(cfg, raftPath)
	if err != nil {
		return nil, err
	}
	if len(pkgs) != 1 {
		return nil, fmt.Errorf("expected 1 package, got %d", len(pkgs))
	}
	var errs []string
	packages.Visit(pkgs, nil, func(p *packages.Package) {
		for _, e := range p.Errors {
			errs = append(errs, e.Error())
		}
	})
	if len(errs) > 0 {
		return nil, fmt.Errorf("load errors:\n%s", strings.Join(errs, "\n"))
	}
	prog, spkgs := ssautil.AllPackages(pkgs, ssa.GlobalDebug|ssa.BareInits)
	prog.Build()
	p := &Program{Fset: pkgs[0].Fset, Pkg: pkgs[0], SSA: spkgs[0], Prog: prog,
		Funcs: map[string]*ssa.Function{}, ErrGlobals: map[string]bool{}}
	var addFn func(fn *ssa.Function)
	addFn = func(fn *ssa.Function) {
		if fn == nil {
			return
		}
		p.Funcs[fn.RelString(p.SSA.Pkg)] = fn
		for _, an := range fn.AnonFuncs {
			addFn(an)
		}
	}
	for _, m := range p.SSA.Members {
		switch m := m.(type) {
		case *ssa.Function:
			addFn(m)
		case *ssa.Type:
			for _, T := range []types.Type{m.Type(), types.NewPointer(m.Type())} {
				ms := prog.MethodSets.MethodSet(T)
				for i := 0; i < ms.Len(); i++ {
					fn := prog.MethodValue(ms.At(i))
					if fn != nil && fn.Pkg == p.SSA && fn.Synthetic == "" {
						addFn(fn)
					}
				}
			}
		}
	}
	// error globals
	for _, f := range p.Pkg.Syntax {
		for _, d := range f.Decls {
			gd, ok := d.(*ast.GenDecl)
			if !ok || gd.Tok != token.VAR {
				continue
			}
			for _, s := range gd.Specs {
				vs := s.(*ast.ValueSpec)
				for i, n := range vs.Names {
					if i >= len(vs.Values) {
						continue
					}
					if call, ok := vs.Values[i].(*ast.CallExpr); ok {
						if sel, ok := call.Fun.(*ast.SelectorExpr); ok {
							if x, ok := sel.X.(*ast.Ident); ok && ((x.Name == "errors" && sel.Sel.Name == "New") || (x.Name == "fmt" && sel.Sel.Name == "Errorf")) {
								p.ErrGlobals[n.Name] = true
							}
						}
					}
				}
			}
		}
	}
	return p, nil
}

func (p *Program) funcNames() []string {
	var ns []string
	for n := range p.Funcs {
		ns = append(ns, n)
	}
	sort.Strings(ns)
	return ns
}

func (p *Program) pos(pos token.Pos) string {
	if !pos.IsValid() {
		return "?"
	}
	ps := p.Fset.Position(pos)
	fn := ps.Filename
	if i := strings.LastIndex(fn, "/"); i >= 0 {
		fn = fn[i+1:]
	}
	return fmt.Sprintf("%s:%d", fn, ps.Line)
}
