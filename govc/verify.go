package main

import (
	"fmt"
	"go/types"
	"os"
	"sort"
	"strings"

	"golang.org/x/tools/go/ssa"
)

// FuncResult is what verification of one function produced.
type FuncResult struct {
	Key        string
	Obls       []*Oblig
	Abstr      []string
	Externs    []string
	Assumed    []string
	Inlined    []string
	Err        string // OUT-OF-SUBSET or contract errors
	Stale      []string // call sites named by the contract that no longer exist (reported as undecided; the other obligations are still checked)
	Trusted    bool
	NumInstrs  int
	Candidates int // inferred loop-invariant obligations discharged (auxiliary)
	CandTime   float64
	Dropped    []string
}

func keys(m map[string]bool) []string {
	var out []string
	for k := range m {
		out = append(out, k)
	}
	sort.Strings(out)
	return out
}

// verifyFunctionH runs the Houdini loop over inferred loop-invariant candidates.
func verifyFunctionH(prog *Program, ctr *Contracts, key string, secs int) *FuncResult {
	disabled := map[string]bool{}
	var res *FuncResult
	for iter := 0; iter < 8; iter++ {
		res = verifyFunction(prog, ctr, key, disabled)
		if res.Err != "" {
			return res
		}
		var cands, rest []*Oblig
		for _, o := range res.Obls {
			if o.Kind == "cand" {
				cands = append(cands, o)
			} else {
				rest = append(rest, o)
			}
		}
		if len(cands) == 0 {
			return res
		}
		csecs := 4
		if secs < csecs {
			csecs = secs
		}
		rs := solveAll(cands, csecs, false, 8, "")
		// undecided candidates get a second, longer attempt before they are dropped
		var again []*Oblig
		for _, o := range cands {
			if st := rs[o].Status; st != "unsat" && st != "sat" {
				again = append(again, o)
			}
		}
		if len(again) > 0 && len(again) <= 8 {
			for o, r := range solveAll(again, secs*2, false, 8, "") {
				if r.Status == "unsat" || r.Status == "sat" {
					rs[o] = r
				}
			}
		}
		failed := 0
		for _, o := range cands {
			if rs[o].Status != "unsat" {
				n := strings.TrimSuffix(strings.TrimSuffix(o.Name[strings.Index(o.Name, "#cand:")+6:], "@init"), "@keep")
				if !disabled[n] {
					disabled[n] = true
					failed++
				}
			}
		}
		if failed == 0 {
			res.Obls = rest
			res.Candidates = len(cands)
			for _, o := range cands {
				res.CandTime += rs[o].Seconds
			}
			var ds []string
			for d := range disabled {
				ds = append(ds, d)
			}
			sort.Strings(ds)
			res.Dropped = ds
			return res
		}
	}
	res.Err = "inferred-invariant iteration did not converge"
	return res
}

func verifyFunction(prog *Program, ctr *Contracts, key string, disabled map[string]bool) (res *FuncResult) {
	res = verifyFunctionCase(prog, ctr, key, disabled, nil, "")
	if res.Err != "" || res.Trusted {
		return
	}
	// case-specialised runs for "ensures label [when C]: ..." clauses
	fc := ctr.Funcs[key]
	seen := map[string]bool{}
	for _, c := range fc.Ensures {
		if len(c.From) > 0 {
			o, err := deriveClause(prog, ctr, key, c)
			if err != "" {
				res.Err = err
				return
			}
			res.Obls = append(res.Obls, o)
			continue
		}
		if c.When == nil || seen[c.WhenSrc] {
			continue
		}
		seen[c.WhenSrc] = true
		sub := verifyFunctionCase(prog, ctr, key, disabled, c.When, c.WhenSrc)
		if sub.Err != "" {
			res.Err = sub.Err
			return
		}
		for _, o := range sub.Obls {
			if o.Kind == "post" || (o.Kind == "cover" && strings.HasSuffix(o.Name, "when")) {
				res.Obls = append(res.Obls, o)
			}
		}
	}
	return
}

// verifyFunctionCase generates the obligations of one function; with a case
// condition, only the ensures clauses carrying that condition are emitted and
// the condition is assumed (and constant-folded) from the entry on.
func verifyFunctionCase(prog *Program, ctr *Contracts, key string, disabled map[string]bool, when Expr, whenSrc string) (res *FuncResult) {
	res = &FuncResult{Key: key}
	fn := prog.Funcs[key]
	fc := ctr.Funcs[key]
	if fn == nil {
		res.Err = "contract-not-attached: no function " + key + " in the current tree"
		return
	}
	if fc == nil {
		res.Err = "no contract for " + key
		return
	}
	if fc.Trusted {
		res.Trusted = true
		return
	}
	ex := newExec(prog, ctr, fn, fc)
	ex.disabled = disabled
	defer func() {
		res.Abstr, res.Externs, res.Assumed, res.Inlined = keys(ex.abstr), keys(ex.externs), keys(ex.assumed), keys(ex.inlined)
		if r := recover(); r != nil {
			switch e := r.(type) {
			case OOS:
				res.Err = e.Error()
			case evalErr:
				res.Err = "contract error: " + string(e)
			default:
				panic(r)
			}
		}
	}()
	for _, b := range fn.Blocks {
		res.NumInstrs += len(b.Instrs)
	}
	// stale loop contracts are errors
	fr := ex.newFrame(fn, nil)
	fr.top = true
	ex.topFrame = fr
	for n := range fc.Loops {
		if n < 1 || n > len(fr.loops) {
			panic(oos("contract names loop %d but %s has %d loops", n, key, len(fr.loops)))
		}
	}
	for n := range fc.LoopEntry {
		if n < 1 || n > len(fr.loops) {
			panic(oos("contract names loop %d but %s has %d loops", n, key, len(fr.loops)))
		}
	}
	st := newState()
	ex.entry = st
	fr.st = st
	fr.cur = "true"
	alloc0 := ex.get(st, allocKey, SInt)
	ex.sc.Assume(mkApp(">=", alloc0, "0"))
	ex.globalAxioms(st)
	// parameters
	// constant bindings from the case condition: param.path == literal
	binds := map[string]string{}
	if when != nil && os.Getenv("GOVC_NOFOLD") == "" {
		collectBindings(ex, when, binds)
	}
	for _, p := range fn.Params {
		v, facts := ex.freshVal(st, p.Type(), "p."+p.Name())
		if len(binds) > 0 {
			ls := leavesOf(p.Type())
			ts := flatten(v)
			changed := false
			for i, l := range ls {
				n := p.Name()
				if l.Path != "" {
					n += "." + l.Path
				}
				if lit, ok := binds[n]; ok {
					ex.sc.Assume(mkEq(ts[i], lit))
					ts[i] = lit
					changed = true
				}
			}
			if changed {
				v, _ = unflatten(p.Type(), ts)
			}
		}
		fr.vals[p] = v
		ex.sc.Assume(mkAnd(facts...))
		ls := leavesOf(p.Type())
		for i, t := range flatten(v) {
			if k := ls[i].Kind; (k == "ref" || k == "slice.arr" || k == "iface.ref") && isAtom(t) && !isLit(t) {
				ex.sc.refSyms[t] = true
			}
			if ls[i].Sort == SInt || ls[i].Sort == SBool {
				n := p.Name()
				if ls[i].Path != "" {
					n += "." + ls[i].Path
				}
				ex.paramObs = append(ex.paramObs, Observable{Name: n, Term: t})
			}
		}
	}
	var fvRefs []string
	for _, fv := range fn.FreeVars {
		et := fv.Type().Underlying().(*types.Pointer).Elem()
		ref := ex.sc.Fresh("fv."+fv.Name(), SInt)
		ex.sc.Assume(mkAnd(mkApp("<", "0", ref), mkApp("<=", ref, alloc0)))
		fr.vals[fv] = Val{K: VPtr, P: &Ptr{Root: "obj", Base: et, Ref: ref, Elem: et}}
		fvRefs = append(fvRefs, ref)
	}
	// distinct captured variables are distinct allocations
	if len(fvRefs) > 1 {
		ex.sc.Assume(mkApp("distinct", fvRefs...))
	}
	env0 := fr.topEnv(st)
	env0.old = st
	for _, ax := range ctr.Axioms {
		func() {
			defer func() {
				if r := recover(); r != nil {
					if ee, ok := r.(evalErr); ok {
						panic(oos("axiom %s: %s", ax.Name, string(ee)))
					}
					panic(r)
				}
			}()
			ex.sc.Assume(env0.evalBool(ax.E))
		}()
	}
	for _, c := range fc.Requires {
		ex.sc.Assume(fr.evalClause(env0, c))
	}
	for _, c := range fc.Observe {
		func() {
			defer func() {
				if r := recover(); r != nil {
					if ee, ok := r.(evalErr); ok {
						panic(oos("observe %s: %s", c.Label, string(ee)))
					}
					panic(r)
				}
			}()
			tv := env0.eval(c.E)
			if tv.V.K == VInt || tv.V.K == VBool {
				ex.paramObs = append(ex.paramObs, Observable{Name: c.Label, Term: ex.sc.Define("obs."+c.Label, map[VKind]Sort{VInt: SInt, VBool: SBool}[tv.V.K], tv.V.T)})
			}
		}()
	}
	if when != nil {
		ex.sc.Assume(fr.evalClause(env0, Clause{E: when, Label: "when", Line: fc.Line}))
		o := ex.addOblig("cover", sanitize(whenSrc)+".when", prog.pos(fn.Pos()), "false", "the case condition is satisfiable: "+whenSrc)
		o.ExpectSat = true
	} else {
		o := ex.addOblig("cover", "pre", prog.pos(fn.Pos()), "false", "the precondition is satisfiable")
		o.ExpectSat = true
	}
	// execute
	fr.run("true", st)
	// exits
	if len(fr.rets) > 0 {
		reach, stR, results := ex.mergeExits(fr.rets, fn.Signature.Results(), "exit")
		env := fr.topEnv(stR)
		env.old = ex.entry
		env.sort = fr.lastSort
		env.loop = fr.postLoopCtx()
		// function-scope locals assigned before any branching are visible in postconditions
		for n, tv := range fr.commonLocalsAtReturns() {
			if _, clash := env.vars[n]; !clash {
				env.vars[n] = tv
			}
		}
		bindResults(env, fn.Signature.Results(), results)
		co := ex.addOblig("cover", "return", prog.pos(fn.Pos()), mkNot(reach), "some return is reachable")
		co.ExpectSat = true
		for _, c := range fc.Ensures {
			if c.OnPanic || c.WhenSrc != whenSrc || len(c.From) > 0 {
				continue
			}
			g := fr.evalClause(env, c)
			src := c.Src
			if c.WhenSrc != "" {
				src = "[when " + c.WhenSrc + "] " + src
			}
			ex.addOblig("post", c.Label, fmt.Sprintf("contract line %d", c.Line), mkImp(reach, g), src)
		}
		if fc.ModDeclared && when == nil {
			ex.frameObligations(fr, fc, env0, reach, stR)
		}
	} else if len(fc.Ensures) > 0 {
		hasNormal := false
		for _, c := range fc.Ensures {
			if !c.OnPanic {
				hasNormal = true
			}
		}
		if hasNormal {
			panic(oos("function %s has ensures clauses but no reachable return", key))
		}
	}
	if len(fr.panics) > 0 {
		conds := make([]string, len(fr.panics))
		sts := make([]*State, len(fr.panics))
		for i, e := range fr.panics {
			conds[i], sts[i] = e.reach, e.st
		}
		reach := ex.sc.Define("panic.reach", SBool, mkOr(conds...))
		stP := ex.mergeStates(conds, sts)
		env := fr.topEnv(stP)
		env.old = ex.entry
		for _, c := range fc.Ensures {
			if !c.OnPanic {
				continue
			}
			g := fr.evalClause(env, c)
			ex.addOblig("post", c.Label, fmt.Sprintf("contract line %d", c.Line), mkImp(reach, g), c.Src)
		}
	}
	// a call-site assertion that names no existing call site is a stale contract
	if when == nil && ex.discover == 0 {
		for site := range fc.CallAsserts {
			if strings.HasSuffix(site, "#*") {
				continue // "every call of f" holds vacuously when there is none
			}
			if !ex.usedAsserts[site] {
				// not fatal: the obligations of the sites that do exist are still generated and checked, so a
				// change that removes one call and thereby breaks another site's assertion is still reported
				res.Stale = append(res.Stale, fmt.Sprintf("contract names call site %s, which does not exist (or is unreachable) in %s", site, key))
			}
		}
	}
	res.Obls = ex.obls
	return
}

func bindResults(env *Env, rs *types.Tuple, results []Val) {
	for i := 0; i < rs.Len(); i++ {
		tv := TV{V: results[i], T: rs.At(i).Type()}
		env.vars[fmt.Sprintf("result%d", i)] = tv
		if n := rs.At(i).Name(); n != "" && n != "_" {
			if _, clash := env.vars[n]; !clash {
				env.vars[n] = tv
			}
		}
		if i == 0 {
			env.vars["result"] = tv
		}
	}
}

// globalAxioms: package-level error variables are non-nil and pairwise distinct.
func (ex *Exec) globalAxioms(st *State) {
	var names []string
	for n := range ex.prog.ErrGlobals {
		names = append(names, n)
	}
	sort.Strings(names)
	if len(names) == 0 {
		return
	}
	var refs []string
	for _, n := range names {
		tag := ex.get(st, "G."+n+".tag", SInt)
		ref := ex.get(st, "G."+n+".ref", SInt)
		ex.sc.Assume(mkAnd(mkApp(">", tag, "0"), mkApp(">", ref, "0")))
		refs = append(refs, ref)
	}
	if len(refs) > 1 {
		ex.sc.Assume(mkApp("distinct", refs...))
	}
	ex.assumed["package-level error variables are non-nil, pairwise distinct and never reassigned"] = true
}

// frameObligations: every pre-existing heap location outside the modifies
// clause is unchanged at return.
func (ex *Exec) frameObligations(fr *Frame, fc *FuncContract, env0 *Env, reach string, stR *State) {
	// modifies set evaluated in the entry state
	mods := map[string][]ModLoc{}
	var wholes []string
	for i, m := range fc.Modifies {
		for _, ml := range fr.evalModLocs(env0, m, fc, i) {
			if ml.Whole {
				wholes = append(wholes, strings.TrimSuffix(ml.Key, "*"))
				continue
			}
			mods[ml.Key] = append(mods[ml.Key], ml)
		}
	}
	var ks []string
	for k := range stR.heap {
		ks = append(ks, k)
	}
	sort.Strings(ks)
	alloc0 := ex.get(ex.entry, allocKey, SInt)
	for _, k := range ks {
		if k == allocKey || strings.HasPrefix(k, "IT.") || strings.HasPrefix(k, "B.") || strings.HasPrefix(k, "CH.cap") || strings.HasPrefix(k, "GG.lastnow.") {
			continue
		}
		skip := false
		for _, w := range wholes {
			if strings.HasPrefix(k, w) {
				skip = true
			}
		}
		if skip {
			continue
		}
		srt := ex.hsort[k]
		cur := stR.heap[k]
		entry := ex.sc.Declare(ex.entryName(k), srt)
		if cur == entry {
			continue
		}
		var goal string
		if !srt.isArray() || strings.HasPrefix(k, "G.") {
			if len(mods[k]) > 0 {
				continue
			}
			goal = mkEq(cur, entry)
		} else {
			o := ex.sc.Fresh("frame.o", SInt)
			p := ex.sc.Fresh("frame.p", SInt)
			two := srt.elem().isArray()
			var excl []string
			elemLevel := false
			for _, ml := range mods[k] {
				switch len(ml.Idx) {
				case 0:
					excl = append(excl, "true")
				case 1:
					excl = append(excl, mkEq(o, ml.Idx[0]))
				case 2:
					elemLevel = true
					excl = append(excl, mkAnd(mkEq(o, ml.Idx[0]), mkEq(p, ml.Idx[1])))
				}
			}
			pre := mkAnd(mkApp("<=", objLowerBound(k, alloc0), o), mkApp("<=", o, alloc0), mkNot(mkOr(excl...)))
			if two && elemLevel {
				goal = mkImp(pre, mkEq(mkSelect(mkSelect(cur, o), p), mkSelect(mkSelect(entry, o), p)))
			} else {
				goal = mkImp(pre, mkEq(mkSelect(cur, o), mkSelect(entry, o)))
			}
		}
		ex.addOblig("frame", k, fmt.Sprintf("contract line %d", fc.Line), mkImp(reach, goal), "only the locations in the modifies clause change")
	}
}

// ---- lemmas -----------------------------------------------------------------------

func verifyLemma(prog *Program, ctr *Contracts, name string) (res *FuncResult) {
	res = &FuncResult{Key: "lemma:" + name}
	lm := ctr.Lemmas[name]
	if lm == nil {
		res.Err = "contract-not-attached: no lemma " + name
		return
	}
	ex := newExec(prog, ctr, nil, nil)
	defer func() {
		if r := recover(); r != nil {
			switch e := r.(type) {
			case OOS:
				res.Err = e.Error()
			case evalErr:
				res.Err = "contract error: " + string(e)
			default:
				panic(r)
			}
		}
	}()
	st := newState()
	ex.entry = st
	env := &Env{ex: ex, st: st, old: st, vars: map[string]TV{}}
	for _, p := range lm.Params {
		t := ex.resolveType(p.Type)
		if p.Type == "mathint" || p.Type == "int" {
			n := ex.sc.Fresh("l."+p.Name, SInt)
			env.vars[p.Name] = TV{V: vInt(n), T: untypedInt}
			ex.paramObs = append(ex.paramObs, Observable{p.Name, n})
			continue
		}
		v, facts := ex.freshVal(st, t, "l."+p.Name)
		ex.sc.Assume(mkAnd(facts...))
		env.vars[p.Name] = TV{V: v, T: t}
		ls := leavesOf(t)
		for i, tm := range flatten(v) {
			if ls[i].Sort == SInt || ls[i].Sort == SBool {
				ex.paramObs = append(ex.paramObs, Observable{p.Name + "." + ls[i].Path, tm})
			}
		}
	}
	for _, c := range lm.Requires {
		ex.sc.Assume(env.evalBool(c.E))
	}
	o := ex.addOblig("cover", "pre", fmt.Sprintf("contract line %d", lm.Line), "false", "lemma hypotheses are satisfiable")
	o.Name = "lemma:" + name + "#cover:pre"
	o.Func = "lemma:" + name
	o.ExpectSat = true
	for _, c := range lm.Ensures {
		ob := ex.addOblig("lemma", c.Label, fmt.Sprintf("contract line %d", c.Line), env.evalBool(c.E), c.Src)
		ob.Name = "lemma:" + name + "#" + c.Label
		ob.Func = "lemma:" + name
	}
	res.Obls = ex.obls
	return
}

var _ = ssa.GlobalDebug

// postLoopCtx: in postconditions #key(j) refers to the enumeration of the
// function's map-range loop (when there is exactly one).
func (fr *Frame) postLoopCtx() *LoopCtx {
	var found *LoopCtx
	n := 0
	for _, lc := range fr.loopCtx {
		if lc != nil && lc.Enum != "" {
			found = &LoopCtx{Enum: lc.Enum, Card: lc.Card, KeyT: lc.KeyT, IterCount: lc.Card, Vars: map[string]TV{}}
			n++
		}
	}
	if n == 1 {
		return found
	}
	return nil
}

// collectBindings: conjuncts of the form  param.field... == constant  in a case condition.
func collectBindings(ex *Exec, e Expr, out map[string]string) {
	b, ok := e.(*EBinary)
	if !ok {
		return
	}
	if b.Op == "&&" {
		collectBindings(ex, b.X, out)
		collectBindings(ex, b.Y, out)
		return
	}
	if b.Op != "==" {
		return
	}
	path := func(e Expr) string {
		var parts []string
		for {
			switch x := e.(type) {
			case *ESel:
				parts = append([]string{x.F}, parts...)
				e = x.X
				continue
			case *EIdent:
				parts = append([]string{x.Name}, parts...)
				return strings.Join(parts, ".")
			}
			return ""
		}
	}
	lit := func(e Expr) string {
		defer func() { recover() }()
		env := &Env{ex: ex, st: newState(), vars: map[string]TV{}}
		switch e.(type) {
		case *EInt, *EIdent:
			tv := env.eval(e)
			if tv.V.K == VInt && isLit(tv.V.T) {
				return tv.V.T
			}
			if tv.V.K == VBool && (tv.V.T == "true" || tv.V.T == "false") {
				return tv.V.T
			}
		}
		return ""
	}
	if p, l := path(b.X), lit(b.Y); p != "" && l != "" {
		out[p] = l
	} else if p, l := path(b.Y), lit(b.X); p != "" && l != "" {
		out[p] = l
	}
}

// deriveClause: "ensures X [from A, B]" is proved from the clauses A and B
// alone, over arbitrary entry/exit states and results (no code): a consequence
// of what the code was separately proved to establish.
func deriveClause(prog *Program, ctr *Contracts, key string, c Clause) (o *Oblig, errs string) {
	fn := prog.Funcs[key]
	fc := ctr.Funcs[key]
	ex := newExec(prog, ctr, fn, fc)
	defer func() {
		if r := recover(); r != nil {
			switch e := r.(type) {
			case OOS:
				errs = e.Error()
			case evalErr:
				errs = "contract error: " + string(e)
			default:
				panic(r)
			}
		}
	}()
	st0 := newState()
	ex.entry = st0
	st1 := &State{heap: map[string]string{}, suffix: "@1"}
	fr := ex.newFrame(fn, nil)
	fr.top = true
	fr.st, fr.cur = st0, "true"
	ex.sc.Assume(mkApp(">=", ex.get(st0, allocKey, SInt), "0"))
	ex.sc.Assume(mkApp(">=", ex.get(st1, allocKey, SInt), ex.get(st0, allocKey, SInt)))
	for _, p := range fn.Params {
		v, facts := ex.freshVal(st0, p.Type(), "p."+p.Name())
		fr.vals[p] = v
		ex.sc.Assume(mkAnd(facts...))
	}
	env := fr.topEnv(st1)
	env.old = st0
	rs := fn.Signature.Results()
	var results []Val
	for i := 0; i < rs.Len(); i++ {
		v, facts := ex.freshVal(st1, rs.At(i).Type(), fmt.Sprintf("res%d", i))
		ex.sc.Assume(mkAnd(facts...))
		results = append(results, v)
	}
	bindResults(env, rs, results)
	env0 := fr.topEnv(st0)
	env0.old = st0
	for _, r := range fc.Requires {
		ex.sc.Assume(fr.evalClause(env0, r))
	}
	formula := func(cl Clause) string {
		g := fr.evalClause(env, cl)
		if cl.When != nil {
			g = mkImp(fr.evalClause(env0, Clause{E: cl.When, Label: cl.Label + ".when", Line: cl.Line}), g)
		}
		return g
	}
	for _, name := range c.From {
		found := false
		for _, a := range fc.Ensures {
			if a.Label == name {
				if len(a.From) > 0 {
					panic(oos("derived clause %s depends on another derived clause %s", c.Label, name))
				}
				ex.sc.Assume(formula(a))
				found = true
			}
		}
		if !found {
			panic(oos("derived clause %s: no ensures clause %q", c.Label, name))
		}
	}
	o = ex.addOblig("post", c.Label, fmt.Sprintf("contract line %d", c.Line), formula(c), "[from "+strings.Join(c.From, ", ")+"] "+c.Src)
	return
}

// commonLocalsAtReturns: source variables whose (single) definition dominates every return.
func (fr *Frame) commonLocalsAtReturns() map[string]TV {
	var out map[string]TV
	for _, b := range fr.fn.Blocks {
		if len(b.Instrs) == 0 {
			continue
		}
		ret, ok := b.Instrs[len(b.Instrs)-1].(*ssa.Return)
		if !ok {
			continue
		}
		saved := fr.st
		fr.st = fr.ex.entry
		ls := fr.localsAtBlock(b, ret)
		fr.st = saved
		if out == nil {
			out = ls
			continue
		}
		for n, tv := range out {
			o, ok := ls[n]
			if !ok || o.V.String() != tv.V.String() {
				delete(out, n)
			}
		}
	}
	// keep only values that are not address-taken cells (those depend on the state)
	return out
}
