package main

import (
	"fmt"
	"go/types"
	"strings"
	"sync"

	"golang.org/x/tools/go/ssa"
)

type VKind int

const (
	VInt VKind = iota
	VBool
	VStruct
	VSlice
	VIface
	VPtr
	VTuple
	VFunc
	VMMap  // mathematical map (ghost): one SMT array per leaf of the value type
	VArrV  // fixed-size array value: one SMT array per element leaf
	VUnit  // no value
	VIter  // map/string iterator
	VSpecF // spec-level function (lambda) -- unused placeholder
)

// Val is a symbolic value.
type Val struct {
	K  VKind
	T  string // term for VInt/VBool
	Fs []Val  // VStruct: fields; VTuple: elems; VSlice: arr,off,len,cap; VIface: tag,ref; VMMap/VArrV: one array term per leaf (as VInt with array term)
	P  *Ptr
	Fn *ssa.Function
	Bs []Val // closure bindings
	It *IterInfo
	// for VMMap/VArrV: element type
	ElemT types.Type
}

// Ptr is the symbolic shape of a pointer.
type Ptr struct {
	Root  string     // "obj", "elem", "global"
	Base  types.Type // obj: type of the pointed-to root object; elem: element type of the backing array; global: type of the variable
	Ref   string     // obj: reference; elem: array id
	Idx   string     // elem: position
	GName string     // global: name
	Path  string     // leaf-path prefix from the root ("" = the root itself), dot-terminated components e.g. "configurations.latest."
	Elem  types.Type // type of the pointee
}

type IterInfo struct {
	Key     string // state key holding the position
	Enum    string // UF name: position -> key
	Map     Val
	KeyT    types.Type
	ValT    types.Type
	CardAt  string // card term at range time
	DomAt   string
	ValAt   []string
	IsStr   bool
	RangeID string
}

func vInt(t string) Val  { return Val{K: VInt, T: t} }
func vBool(t string) Val { return Val{K: VBool, T: t} }

var vUnit = Val{K: VUnit}

func (v Val) String() string {
	switch v.K {
	case VInt, VBool:
		return v.T
	case VStruct:
		var s []string
		for _, f := range v.Fs {
			s = append(s, f.String())
		}
		return "{" + strings.Join(s, ", ") + "}"
	case VSlice:
		return fmt.Sprintf("slice(%s,%s,%s,%s)", v.Fs[0].T, v.Fs[1].T, v.Fs[2].T, v.Fs[3].T)
	case VIface:
		return fmt.Sprintf("iface(%s,%s)", v.Fs[0].T, v.Fs[1].T)
	case VPtr:
		return fmt.Sprintf("ptr(%s %s ref=%s idx=%s path=%s)", v.P.Root, typeKey(v.P.Base), v.P.Ref, v.P.Idx, v.P.Path)
	case VTuple:
		var s []string
		for _, f := range v.Fs {
			s = append(s, f.String())
		}
		return "(" + strings.Join(s, ", ") + ")"
	case VFunc:
		if v.Fn != nil {
			return "func " + v.Fn.Name()
		}
		return "func?"
	case VUnit:
		return "()"
	}
	return fmt.Sprintf("val(kind=%d)", v.K)
}

// Leaf describes one scalar component of a Go type.
type Leaf struct {
	Path string // e.g. "configurations.latest.Servers.len"; "" for a scalar type
	Sort Sort
	Typ  types.Type // Go type of the leaf when it is a whole scalar (nil for slice/iface parts)
	Kind string     // "int","bool","str","ref","slice.arr","slice.off","slice.len","slice.cap","iface.tag","iface.ref","arr"
}

var leafCache = map[types.Type][]Leaf{}
var leafMu sync.Mutex

func leavesOf(t types.Type) []Leaf {
	leafMu.Lock()
	l, ok := leafCache[t]
	leafMu.Unlock()
	if ok {
		return l
	}
	var out []Leaf
	switch u := t.Underlying().(type) {
	case *types.Basic:
		switch {
		case u.Info()&types.IsBoolean != 0:
			out = []Leaf{{"", SBool, t, "bool"}}
		case u.Info()&types.IsString != 0:
			out = []Leaf{{"", SInt, t, "str"}}
		case u.Info()&types.IsInteger != 0:
			out = []Leaf{{"", SInt, t, "int"}}
		case u.Kind() == types.UnsafePointer:
			out = []Leaf{{"", SInt, t, "ref"}}
		case u.Info()&types.IsFloat != 0:
			out = []Leaf{{"", SInt, t, "float"}} // floats are opaque values
		case u.Kind() == types.UntypedNil:
			out = []Leaf{{"", SInt, t, "ref"}}
		default:
			panic(oos("unsupported basic type %s", t))
		}
	case *types.Pointer, *types.Map, *types.Chan, *types.Signature:
		out = []Leaf{{"", SInt, t, "ref"}}
	case *types.Slice:
		out = []Leaf{{"arr", SInt, nil, "slice.arr"}, {"off", SInt, nil, "slice.off"}, {"len", SInt, nil, "slice.len"}, {"cap", SInt, nil, "slice.cap"}}
	case *types.Interface:
		out = []Leaf{{"tag", SInt, nil, "iface.tag"}, {"ref", SInt, nil, "iface.ref"}}
	case *types.Struct:
		for i := 0; i < u.NumFields(); i++ {
			f := u.Field(i)
			name := f.Name()
			if name == "_" {
				name = fmt.Sprintf("_%d", i)
			}
			for _, l := range leavesOf(f.Type()) {
				p := name
				if l.Path != "" {
					p = name + "." + l.Path
				}
				out = append(out, Leaf{p, l.Sort, l.Typ, l.Kind})
			}
		}
	case *types.Array:
		for _, l := range leavesOf(u.Elem()) {
			p := "[]"
			if l.Path != "" {
				p = "[]." + l.Path
			}
			out = append(out, Leaf{p, SArr(SInt, l.Sort), nil, "arr"})
		}
	case *types.Tuple:
		for i := 0; i < u.Len(); i++ {
			for _, l := range leavesOf(u.At(i).Type()) {
				out = append(out, Leaf{fmt.Sprintf("#%d.%s", i, l.Path), l.Sort, l.Typ, l.Kind})
			}
		}
	default:
		panic(oos("unsupported type %s (%T)", t, u))
	}
	leafMu.Lock()
	leafCache[t] = out
	leafMu.Unlock()
	return out
}

// typeKey is a stable short name of a type for heap-array names.
func typeKey(t types.Type) string {
	switch tt := t.(type) {
	case *types.Named:
		obj := tt.Obj()
		if obj.Pkg() != nil && obj.Pkg().Path() != raftPath {
			return sanitize(obj.Pkg().Name() + "." + obj.Name())
		}
		return sanitize(obj.Name())
	case *types.Alias:
		return typeKey(types.Unalias(tt))
	}
	s := types.TypeString(t, func(p *types.Package) string {
		if p.Path() == raftPath {
			return ""
		}
		return p.Name()
	})
	return sanitize(s)
}

// flatten a value into its leaf terms (in leavesOf order).
func flatten(v Val) []string {
	switch v.K {
	case VInt, VBool:
		return []string{v.T}
	case VUnit:
		return nil
	case VPtr:
		return []string{ptrRef(v.P)}
	case VFunc:
		return []string{"0"}
	case VStruct, VTuple, VSlice, VIface, VMMap, VArrV:
		var out []string
		for _, f := range v.Fs {
			out = append(out, flatten(f)...)
		}
		return out
	}
	panic(oos("flatten: kind %d", v.K))
}

// ptrRef returns the Int reference of a plain object pointer.
func ptrRef(p *Ptr) string {
	if p == nil {
		return "0"
	}
	if p.Root == "obj" && p.Path == "" {
		return p.Ref
	}
	if p.Root == "obj" && len(addressable) > 0 && addressablePath(p) {
		return p.Ref
	}
	panic(oos("interior pointer used as a value (root=%s path=%q base=%s)", p.Root, p.Path, typeKey(p.Base)))
}

// unflatten builds a value of type t from leaf terms; returns the remaining terms.
func unflatten(t types.Type, ts []string) (Val, []string) {
	switch u := t.Underlying().(type) {
	case *types.Basic:
		if u.Info()&types.IsBoolean != 0 {
			return vBool(ts[0]), ts[1:]
		}
		return vInt(ts[0]), ts[1:]
	case *types.Pointer:
		return Val{K: VPtr, P: &Ptr{Root: "obj", Base: u.Elem(), Ref: ts[0], Elem: u.Elem()}}, ts[1:]
	case *types.Map, *types.Chan, *types.Signature:
		return vInt(ts[0]), ts[1:]
	case *types.Slice:
		return Val{K: VSlice, Fs: []Val{vInt(ts[0]), vInt(ts[1]), vInt(ts[2]), vInt(ts[3])}}, ts[4:]
	case *types.Interface:
		return Val{K: VIface, Fs: []Val{vInt(ts[0]), vInt(ts[1])}}, ts[2:]
	case *types.Struct:
		v := Val{K: VStruct}
		for i := 0; i < u.NumFields(); i++ {
			var f Val
			f, ts = unflatten(u.Field(i).Type(), ts)
			v.Fs = append(v.Fs, f)
		}
		return v, ts
	case *types.Array:
		v := Val{K: VArrV, ElemT: u.Elem()}
		for range leavesOf(u.Elem()) {
			v.Fs = append(v.Fs, vInt(ts[0]))
			ts = ts[1:]
		}
		return v, ts
	case *types.Tuple:
		v := Val{K: VTuple}
		for i := 0; i < u.Len(); i++ {
			var f Val
			f, ts = unflatten(u.At(i).Type(), ts)
			v.Fs = append(v.Fs, f)
		}
		return v, ts
	}
	panic(oos("unflatten: unsupported type %s", t))
}

// zeroLeaves gives the zero value of each leaf.
func zeroLeaf(l Leaf) string {
	if l.Sort == SBool {
		return "false"
	}
	if l.Sort == SInt {
		return "0"
	}
	// arrays: constant array
	return constArray(l.Sort)
}

func constArray(s Sort) string {
	e := s.elem()
	var z string
	switch {
	case e == SBool:
		z = "false"
	case e == SInt:
		z = "0"
	default:
		z = constArray(e)
	}
	return fmt.Sprintf("((as const %s) %s)", s, z)
}

func zeroVal(t types.Type) Val {
	ls := leavesOf(t)
	ts := make([]string, len(ls))
	for i, l := range ls {
		ts[i] = zeroLeaf(l)
	}
	v, _ := unflatten(t, ts)
	return v
}

// OOS is the panic value for constructs outside the modelled subset.
type OOS struct{ Msg string }

func oos(format string, args ...interface{}) OOS {
	return OOS{fmt.Sprintf(format, args...)}
}

func (o OOS) Error() string { return "OUT-OF-SUBSET " + o.Msg }

// intRange returns the inclusive range of an integer type, ok=false if not an integer.
func intRange(t types.Type) (lo, hi string, ok bool) {
	b, isb := t.Underlying().(*types.Basic)
	if !isb || b.Info()&types.IsInteger == 0 {
		return "", "", false
	}
	bits, signed := intBits(b)
	if signed {
		return intLit(new(bigInt).Neg(pow2(bits - 1))), intLit(new(bigInt).Sub(pow2(bits-1), bigOne)), true
	}
	return "0", intLit(new(bigInt).Sub(pow2(bits), bigOne)), true
}

func intBits(b *types.Basic) (bits uint, signed bool) {
	switch b.Kind() {
	case types.Int8:
		return 8, true
	case types.Int16:
		return 16, true
	case types.Int32:
		return 32, true
	case types.Int64, types.Int, types.UntypedInt, types.UntypedRune:
		return 64, true
	case types.Uint8:
		return 8, false
	case types.Uint16:
		return 16, false
	case types.Uint32:
		return 32, false
	case types.Uint64, types.Uint, types.Uintptr:
		return 64, false
	}
	return 64, true
}

// ptrHasRef: can this pointer be represented as an integer reference (a whole
// object, or an addressable embedded field)?
func ptrHasRef(p *Ptr) bool {
	if p == nil || (p.Root == "obj" && p.Path == "") {
		return true
	}
	if p.Root == "obj" && len(addressable) > 0 && addressablePath(p) {
		return true
	}
	return false
}

// addressablePath: does the pointer's field path consist only of addressable embedded fields?
func addressablePath(p *Ptr) bool {
	baseKey := typeKey(p.Base)
	path := strings.TrimSuffix(p.Path, ".")
	if path == "" {
		return true
	}
	for _, comp := range strings.Split(path, ".") {
		ft, ok := addressableFieldType[baseKey+"."+comp]
		if !ok {
			return false
		}
		baseKey = ft
	}
	return true
}

// canonPtr rewrites a pointer to an addressable embedded field into a plain
// pointer to an object of the field's type (same reference).
func canonPtr(p *Ptr, elem types.Type) *Ptr {
	if p.Root != "obj" || p.Path == "" || len(addressable) == 0 || !addressablePath(p) {
		return p
	}
	return &Ptr{Root: "obj", Base: elem, Ref: p.Ref, Elem: elem}
}
