package main

import (
	"bufio"
	"encoding/json"
	"flag"
	"fmt"
	"os"
	"path/filepath"
	"regexp"
	"sort"
	"strconv"
	"strings"
	"sync"
	"sync/atomic"
	"time"
)

// PropSpec is /verif/props/<id>.json.
type PropSpec struct {
	Property  string   `json:"property"`
	Functions []string `json:"functions"`
	Lemmas    []string `json:"lemmas"`
	LevelNote string   `json:"level_note"`
	Trusted   []string `json:"trusted_base"`
	// Bounded: functions outside the verifier's reach, exercised by a bounded test (never counted as proved).
	Bounded []BoundedSpec `json:"bounded"`
	// Exclude: obligation-name regexps not claimed (e.g. slow ones), with reason.
	Exclude []ExcludeSpec `json:"exclude"`
}

type BoundedSpec struct {
	Name  string `json:"name"`
	Test  string `json:"test"` // overlay test file under /verif/bounded
	Run   string `json:"run"`
	Bound string `json:"bound"`
}

type ExcludeSpec struct {
	Pattern string `json:"pattern"`
	Reason  string `json:"reason"`
}

type KnownFinding struct {
	Kind       string // "finding" or "fixed"
	Property   string
	Obligation string
	Class      string
	What       string
	Commit     string
}

var kfRe = regexp.MustCompile(`(\w+)=("([^"]*)"|\S+)`)

func readKnownFindings(path string) []KnownFinding {
	f, err := os.Open(path)
	if err != nil {
		return nil
	}
	defer f.Close()
	var out []KnownFinding
	sc := bufio.NewScanner(f)
	for sc.Scan() {
		ln := strings.TrimSpace(sc.Text())
		if ln == "" || strings.HasPrefix(ln, "#") {
			continue
		}
		kind := ""
		switch {
		case strings.HasPrefix(ln, "finding:"):
			kind = "finding"
		case strings.HasPrefix(ln, "fixed:"):
			kind = "fixed"
		default:
			continue
		}
		kf := KnownFinding{Kind: kind}
		for _, m := range kfRe.FindAllStringSubmatch(ln, -1) {
			v := m[2]
			if m[3] != "" || strings.HasPrefix(v, `"`) {
				v = m[3]
			}
			switch m[1] {
			case "property":
				kf.Property = v
			case "obligation":
				kf.Obligation = v
			case "class":
				kf.Class = v
			case "what":
				kf.What = v
			case "commit":
				kf.Commit = v
			}
		}
		out = append(out, kf)
	}
	return out
}

type oblRecord struct {
	Name    string  `json:"name"`
	Status  string  `json:"status"`
	Solver  string  `json:"solver,omitempty"`
	Seconds float64 `json:"seconds"`
	Bytes   int     `json:"smt_bytes"`
	Pos     string  `json:"pos,omitempty"`
	Clause  string  `json:"clause,omitempty"`
	Confirm string  `json:"confirmed_by,omitempty"`
}

type funcRecord struct {
	Name         string   `json:"name"`
	Grade        string   `json:"grade"`
	Obligations  int      `json:"obligations"`
	Discharged   int      `json:"discharged"`
	Inferred     int      `json:"inferred_invariant_obligations"`
	Abstractions []string `json:"abstractions,omitempty"`
	Inlined      []string `json:"inlined_callees,omitempty"`
	Instrs       int      `json:"ssa_instructions"`
}

func verifRoot() string {
	if r := os.Getenv("VERIF_ROOT"); r != "" {
		return r
	}
	exe, err := os.Executable()
	if err == nil {
		d := filepath.Dir(filepath.Dir(exe))
		if _, err := os.Stat(filepath.Join(d, "props")); err == nil {
			return d
		}
	}
	return "/verif"
}

func cmdCheck(args []string) {
	fs := flag.NewFlagSet("check", flag.ExitOnError)
	prop := fs.String("prop", "", "property id")
	tier := fs.String("tier", "quick", "quick|thorough")
	repo := fs.String("repo", "/repo", "repository")
	noEvidence := fs.Bool("no-evidence", false, "do not write the evidence file (self-test runs)")
	replayDirFlag := fs.String("replay-dir", "", "directory for replay files (default <root>/replays/<id>)")
	fs.Parse(args)
	root := verifRoot()
	t0 := time.Now()
	seed := 0
	if s := os.Getenv("VERIF_SEED"); s != "" {
		seed, _ = strconv.Atoi(s)
	}
	die := func(code int, f string, a ...interface{}) {
		fmt.Printf(f+"\n", a...)
		os.Exit(code)
	}
	var spec PropSpec
	data, err := os.ReadFile(filepath.Join(root, "props", *prop+".json"))
	if err != nil {
		die(2, "UNDECIDED property=%s no property specification: %v", *prop, err)
	}
	if err := json.Unmarshal(data, &spec); err != nil {
		die(2, "UNDECIDED property=%s bad property specification: %v", *prop, err)
	}
	// contracts: the copy in the repository must be the committed one
	master := filepath.Join(root, "contracts", "contracts_verif.go")
	cfile := filepath.Join(*repo, "contracts_verif.go")
	mtext, err := os.ReadFile(master)
	if err != nil {
		die(2, "UNDECIDED property=%s contracts file missing: %v", *prop, err)
	}
	if rtext, err := os.ReadFile(cfile); err == nil {
		if string(rtext) != string(mtext) {
			die(2, "UNDECIDED property=%s contracts file in the repository differs from %s (contracts must not be edited in one place only)", *prop, master)
		}
	} else {
		cfile = master
	}
	prog, err := loadProgram(*repo)
	if err != nil {
		die(2, "UNDECIDED property=%s the repository does not load/compile: %v", *prop, err)
	}
	ctr, err := parseContractsFile(cfile)
	if err != nil {
		die(2, "UNDECIDED property=%s %v", *prop, err)
	}
	secs := 10
	confirm := false
	if *tier == "thorough" {
		secs = 60
		confirm = true
	}
	var excl []*regexp.Regexp
	for _, e := range spec.Exclude {
		excl = append(excl, regexp.MustCompile(e.Pattern))
	}
	known := readKnownFindings(filepath.Join(root, "known_findings.txt"))
	baseline := readBaseline(filepath.Join(root, "baseline_obligations.json"))

	var frecs []funcRecord
	var undecided []string
	var allObls []*Oblig
	results := map[*Oblig]SolveResult{}
	abstr, externs, assumed := map[string]bool{}, map[string]bool{}, map[string]bool{}
	inferred := 0
	var inferredTime float64
	units := append([]string{}, spec.Functions...)
	for _, l := range spec.Lemmas {
		units = append(units, "lemma:"+l)
	}
	type unitRes struct {
		name string
		res  *FuncResult
	}
	var ures []unitRes
	resCh := make([]*FuncResult, len(units))
	{
		var wg sync.WaitGroup
		gate := make(chan struct{}, 6)
		for i, u := range units {
			wg.Add(1)
			go func(i int, u string) {
				defer wg.Done()
				gate <- struct{}{}
				defer func() { <-gate }()
				if strings.HasPrefix(u, "lemma:") {
					resCh[i] = verifyLemma(prog, ctr, strings.TrimPrefix(u, "lemma:"))
				} else {
					resCh[i] = verifyFunctionH(prog, ctr, u, secs)
				}
			}(i, u)
		}
		wg.Wait()
	}
	for i, u := range units {
		res := resCh[i]
		ures = append(ures, unitRes{u, res})
		if res.Err != "" {
			undecided = append(undecided, fmt.Sprintf("%s: %s", u, res.Err))
			continue
		}
		for _, st := range res.Stale {
			undecided = append(undecided, fmt.Sprintf("%s: %s", u, st))
		}
		for _, a := range res.Abstr {
			abstr[a] = true
		}
		for _, a := range res.Externs {
			externs[a] = true
		}
		for _, a := range res.Assumed {
			assumed[a] = true
		}
		inferred += res.Candidates
		inferredTime += res.CandTime
		for _, o := range res.Obls {
			skip := false
			for _, re := range excl {
				if re.MatchString(o.Name) {
					skip = true
				}
			}
			if !skip {
				allObls = append(allObls, o)
			}
		}
	}
	// discharge: covers get a short limit
	var covers, goals []*Oblig
	for _, o := range allObls {
		if o.ExpectSat {
			covers = append(covers, o)
		} else {
			goals = append(goals, o)
		}
	}
	for o, r := range solveAll(goals, secs, confirm, 12, "") {
		results[o] = r
	}
	// second chance: an obligation that no solver decided within the limit is
	// re-asked with a long limit before it is reported (machine load must not
	// turn a slow proof into an alarm)
	var retry []*Oblig
	for _, o := range goals {
		if st := results[o].Status; st != "unsat" && st != "sat" {
			isKnown := false
			for _, kf := range known {
				if kf.Kind == "finding" && kf.Obligation == o.Name {
					isKnown = true
				}
			}
			if !isKnown {
				retry = append(retry, o)
			}
		}
	}
	if len(retry) > 0 {
		long := secs * 6
		if long < 90 {
			long = 90
		}
		for o, r := range solveAll(retry, long, false, 6, "") {
			if r.Status == "unsat" || r.Status == "sat" {
				r.Confirm = "decided on retry with a " + fmt.Sprint(long) + " s limit"
				results[o] = r
			}
		}
	}
	for o, r := range solveAll(covers, 3, false, 12, "") {
		results[o] = r
	}
	// baseline: a claimed obligation that is no longer generated is not a pass
	have := map[string]bool{}
	for _, o := range allObls {
		have[o.Name] = true
	}
	for _, n := range baseline[*prop] {
		if !have[n] {
			skip := false
			for _, re := range excl {
				if re.MatchString(n) {
					skip = true
				}
			}
			if !skip {
				undecided = append(undecided, "contract-not-attached "+n+" (in the baseline, not generated from the current tree)")
			}
		}
	}
	// classify
	bySolver := map[string]int{}
	bySolverTime := map[string]float64{}
	var recs, samples []oblRecord
	var failed []*Oblig
	coversOK, coversUndecided, coversFailed := 0, 0, 0
	discharged := 0
	solverTime := inferredTime
	for _, o := range allObls {
		r := results[o]
		solverTime += r.Seconds
		rec := oblRecord{Name: o.Name, Status: r.Status, Solver: r.Solver, Seconds: round3(r.Seconds), Bytes: r.Bytes, Pos: o.Pos, Clause: o.Src, Confirm: r.Confirm}
		if o.ExpectSat {
			switch r.Status {
			case "sat":
				coversOK++
			case "unsat":
				coversFailed++
				failed = append(failed, o)
			default:
				coversUndecided++
			}
			continue
		}
		recs = append(recs, rec)
		if r.Status == "unsat" {
			discharged++
			bySolver[r.Solver]++
			bySolverTime[r.Solver] += r.Seconds
		} else {
			failed = append(failed, o)
		}
	}
	for _, ur := range ures {
		if ur.res.Err != "" || ur.res.Trusted {
			continue
		}
		fr := funcRecord{Name: ur.name, Grade: "proved", Abstractions: ur.res.Abstr, Inlined: ur.res.Inlined, Inferred: ur.res.Candidates, Instrs: ur.res.NumInstrs}
		if len(ur.res.Abstr) > 0 {
			fr.Grade = "proved-abstracted"
		}
		for _, o := range ur.res.Obls {
			if o.ExpectSat {
				continue
			}
			if _, ok := results[o]; !ok {
				continue
			}
			fr.Obligations++
			if results[o].Status == "unsat" {
				fr.Discharged++
			}
		}
		if fr.Discharged < fr.Obligations {
			fr.Grade = "not proved"
		}
		frecs = append(frecs, fr)
	}
	// failures: known finding or violation
	violations := 0
	var knownHit []string
	exit := 0
	// a failed assertion is assumed afterwards, which can make later code
	// unreachable: vacuous covers of a function that has another failed
	// obligation are collateral and not reported separately
	failedFuncs := map[string]bool{}
	for _, o := range failed {
		if !o.ExpectSat {
			failedFuncs[o.Func] = true
		}
	}
	{
		var keep []*Oblig
		for _, o := range failed {
			if o.ExpectSat && failedFuncs[o.Func] {
				continue
			}
			keep = append(keep, o)
		}
		failed = keep
	}
	replayDir := filepath.Join(root, "replays", *prop)
	if *replayDirFlag != "" {
		replayDir = *replayDirFlag
	}
	for _, o := range failed {
		r := results[o]
		isKnown := false
		for _, kf := range known {
			if kf.Kind == "finding" && (kf.Property == *prop || kf.Property == "*") && kf.Obligation == o.Name {
				isKnown = true
				fmt.Printf("KNOWN-FINDING: property=%s %s: %s\n", *prop, o.Name, kf.Class)
				knownHit = append(knownHit, o.Name)
			}
		}
		if isKnown {
			continue
		}
		violations++
		exit = 1
		_ = os.MkdirAll(replayDir, 0o755)
		rp := filepath.Join(replayDir, sanitize(o.Name)+".json")
		rep := buildReplay(prog, *repo, root, *prop, o, r, secs)
		b, _ := json.MarshalIndent(rep, "", " ")
		_ = os.WriteFile(rp, b, 0o644)
		suffix := ""
		if !rep.Replayed {
			suffix = " no-failing-input-found"
		}
		fmt.Printf("VIOLATION property=%s replay=%s obligation=%s solver-answer=%s%s\n", *prop, rp, o.Name, r.Status, suffix)
	}
	for _, u := range undecided {
		fmt.Printf("UNDECIDED property=%s %s\n", *prop, u)
		if exit == 0 {
			exit = 2
		}
	}
	// known findings must keep failing: a listed finding whose obligation now passes is reported (stale entry)
	for _, kf := range known {
		if kf.Kind != "finding" || kf.Property != *prop {
			continue // property=* entries are only reported where they fail
		}
		hit := false
		for _, k := range knownHit {
			if k == kf.Obligation {
				hit = true
			}
		}
		if !hit {
			fmt.Printf("NOTE: known finding %s did not fail on this tree (obligation discharged or not generated)\n", kf.Obligation)
		}
	}
	// samples
	for i, rc := range recs {
		if i%(len(recs)/6+1) == 0 {
			samples = append(samples, rc)
		}
	}
	// bounded stand-ins
	var bounded []map[string]interface{}
	for _, b := range spec.Bounded {
		ok, out, dur := runBounded(root, *repo, b)
		bounded = append(bounded, map[string]interface{}{"name": b.Name, "bound": b.Bound, "passed": ok, "seconds": round3(dur), "label": "bounded (not counted as proved)"})
		if !ok {
			violations++
			exit = 1
			_ = os.MkdirAll(replayDir, 0o755)
			rp := filepath.Join(replayDir, "bounded_"+sanitize(b.Name)+".json")
			bb, _ := json.MarshalIndent(map[string]interface{}{"bounded_check": b.Name, "bound": b.Bound, "output": out}, "", " ")
			_ = os.WriteFile(rp, bb, 0o644)
			fmt.Printf("VIOLATION property=%s replay=%s bounded-check=%s\n", *prop, rp, b.Name)
		}
	}
	trusted := append([]string{}, spec.Trusted...)
	trusted = append(trusted, keys(assumed)...)
	for _, e := range keys(externs) {
		trusted = append(trusted, "external callee: "+e)
	}
	for _, a := range keys(abstr) {
		trusted = append(trusted, "abstraction: "+a)
	}
	trusted = append(trusted,
		"govc itself: the VC generator (SSA semantics of section 2.2/11.3 of DESIGN.md) and the SMT solvers z3 5.1.0 / z3 4.8.12 / cvc5 1.0.3",
		"A-SEQ: each function under contract runs without interference from other goroutines on the state it touches",
		"machine integers: + - * wrap as in Go (no 'mathematical integer' shortcut); % and / by a non-constant divisor are uninterpreted with sound axioms")
	assumptions := []string{spec.LevelNote}
	for _, e := range spec.Exclude {
		assumptions = append(assumptions, "not claimed: obligations matching "+e.Pattern+" ("+e.Reason+")")
	}
	cov := map[string]interface{}{
		"obligations":                    len(recs) - len(knownHit),
		"discharged":                     discharged,
		"checker_cmd":                    fmt.Sprintf("govc check -prop %s -tier %s (obligations as SMT-LIB2; z3-new 5.1.0, z3 4.8.12, cvc5 1.0.3 raced, %ds limit)", *prop, *tier, secs),
		"trusted_base":                   trusted,
		"functions_under_contract":       frecs,
		"by_solver":                      bySolver,
		"by_solver_seconds":              roundMap(bySolverTime),
		"solver_time_s":                  round3(solverTime),
		"proof_cache":                    map[string]int64{"hits": atomic.LoadInt64(&cacheHits), "misses": atomic.LoadInt64(&cacheMisses)},
		"inferred_invariant_obligations": inferred,
		"covers":                         map[string]int{"reachable_confirmed": coversOK, "undecided": coversUndecided, "vacuous": coversFailed},
		"undecided":                      undecided,
		"known_findings_hit":             knownHit,
		"samples":                        samples,
		"bounded":                        bounded,
		"all_obligations":                recs,
	}
	ev := map[string]interface{}{
		"property_id": *prop,
		"tier":        *tier,
		"seed":        seed,
		"level":       "proof",
		"coverage":    cov,
		"assumptions": assumptions,
		"wall_s":      round3(time.Since(t0).Seconds()),
		"violations":  violations,
	}
	if !*noEvidence {
		_ = os.MkdirAll(filepath.Join(root, "evidence"), 0o755)
		b, _ := json.MarshalIndent(ev, "", " ")
		_ = os.WriteFile(filepath.Join(root, "evidence", *prop+".json"), b, 0o644)
	}
	fmt.Printf("property=%s tier=%s functions=%d obligations=%d discharged=%d known=%d violations=%d undecided=%d covers=%d/%d wall=%.1fs\n",
		*prop, *tier, len(frecs), len(recs), discharged, len(knownHit), violations, len(undecided), coversOK, len(covers), time.Since(t0).Seconds())
	os.Exit(exit)
}

func round3(x float64) float64 { return float64(int(x*1000+0.5)) / 1000 }

func roundMap(m map[string]float64) map[string]float64 {
	out := map[string]float64{}
	for k, v := range m {
		out[k] = round3(v)
	}
	return out
}

func readBaseline(path string) map[string][]string {
	out := map[string][]string{}
	data, err := os.ReadFile(path)
	if err != nil {
		return out
	}
	_ = json.Unmarshal(data, &out)
	return out
}

// cmdBaseline writes the names of all claimed obligations on the current tree.
func cmdBaseline(args []string) {
	fs := flag.NewFlagSet("baseline", flag.ExitOnError)
	repo := fs.String("repo", "/repo", "repository")
	fs.Parse(args)
	root := verifRoot()
	prog, err := loadProgram(*repo)
	if err != nil {
		fmt.Fprintln(os.Stderr, err)
		os.Exit(2)
	}
	ctr, err := parseContractsFile(filepath.Join(root, "contracts", "contracts_verif.go"))
	if err != nil {
		fmt.Fprintln(os.Stderr, err)
		os.Exit(2)
	}
	out := map[string][]string{}
	memo := map[string]*FuncResult{}
	files, _ := filepath.Glob(filepath.Join(root, "props", "*.json"))
	sort.Strings(files)
	for _, f := range files {
		var spec PropSpec
		data, _ := os.ReadFile(f)
		if err := json.Unmarshal(data, &spec); err != nil {
			fmt.Fprintln(os.Stderr, f, err)
			os.Exit(2)
		}
		var names []string
		for _, u := range spec.Functions {
			// obligation names do not depend on which inferred candidates survive: no solving needed
			res, ok := memo[u]
			if !ok {
				res = verifyFunction(prog, ctr, u, map[string]bool{})
				memo[u] = res
			}
			if res.Err != "" {
				fmt.Fprintln(os.Stderr, "baseline:", u, res.Err)
				os.Exit(2)
			}
			for _, o := range res.Obls {
				if o.Kind != "cand" {
					names = append(names, o.Name)
				}
			}
		}
		for _, l := range spec.Lemmas {
			res := verifyLemma(prog, ctr, l)
			if res.Err != "" {
				fmt.Fprintln(os.Stderr, "baseline:", l, res.Err)
				os.Exit(2)
			}
			for _, o := range res.Obls {
				names = append(names, o.Name)
			}
		}
		out[spec.Property] = names
	}
	b, _ := json.MarshalIndent(out, "", " ")
	_ = os.WriteFile(filepath.Join(root, "baseline_obligations.json"), b, 0o644)
	fmt.Println("wrote baseline_obligations.json")
}
