package main

import (
	"fmt"
	"go/token"
	"go/types"
	"os"
	"sort"
	"strings"
	"sync"

	"golang.org/x/tools/go/ssa"
)

// Oblig is one proof obligation: prove Goal under the script prefix.
type Oblig struct {
	Name      string
	Func      string
	Kind      string
	Pos       string
	CmdIdx    int
	Goal      string
	ExpectSat bool // cover obligations
	Script    *Script
	Observe   []Observable
	Src       string
}

type Observable struct {
	Name string
	Term string
}

// Exec verifies one function.
type Exec struct {
	prog        *Program
	ctr         *Contracts
	sc          *Script
	top         *ssa.Function
	fc          *FuncContract
	obls        []*Oblig
	hsort       map[string]Sort
	written     map[string]bool
	discover    int
	typeCache   map[string]types.Type
	qn          int
	specDepth   int
	tags        map[string]int
	tagTypes    []types.Type
	strs        map[string]int
	abstr       map[string]bool // abstractions used (reported)
	externs     map[string]bool // default-external callees used
	assumed     map[string]bool // assumed contracts used (interfaces, externs, trusted)
	inlined     map[string]bool
	entry       *State
	safeCount   map[string]int
	errs        []string
	paramObs    []Observable
	retCount    int
	usedAsserts map[string]bool
	topFrame    *Frame
	cellPtr     map[string]Val // local cells holding interior pointers
	names       map[string]int
	countCache  map[string]string
	kinds       map[string]string // heap key -> leaf kind
	leafTyp     map[string]types.Type
	disabled    map[string]bool // Houdini: candidate invariants that failed
	loopRefs    map[*ssa.BasicBlock]*State
}

var addrOnce sync.Once

func registerAddressable(prog *Program, ctr *Contracts) {
	addrOnce.Do(func() {
		for i, d := range ctr.Addressable {
			parts := strings.SplitN(d, ".", 2)
			if len(parts) != 2 {
				panic(oos("bad addressable declaration %q", d))
			}
			tn, ok := prog.Pkg.Types.Scope().Lookup(parts[0]).(*types.TypeName)
			if !ok {
				panic(oos("addressable: no type %s", parts[0]))
			}
			st, ok := tn.Type().Underlying().(*types.Struct)
			if !ok {
				panic(oos("addressable: %s is not a struct", parts[0]))
			}
			found := false
			for j := 0; j < st.NumFields(); j++ {
				if st.Field(j).Name() == parts[1] {
					key := typeKey(tn.Type()) + "." + parts[1]
					for other, ft := range addressableFieldType {
						if strings.HasPrefix(other, typeKey(tn.Type())+".") && ft == typeKey(st.Field(j).Type()) {
							panic(oos("two addressable fields of type %s in %s", ft, parts[0]))
						}
					}
					addressable[key] = i
					addressableFieldType[key] = typeKey(st.Field(j).Type())
					addressableElem[typeKey(st.Field(j).Type())] = true
					found = true
				}
			}
			if !found {
				panic(oos("addressable: no field %s in %s", parts[1], parts[0]))
			}
		}
	})
}

func newExec(prog *Program, ctr *Contracts, fn *ssa.Function, fc *FuncContract) *Exec {
	registerAddressable(prog, ctr)
	return &Exec{prog: prog, ctr: ctr, sc: newScript(), top: fn, fc: fc,
		hsort: map[string]Sort{}, written: map[string]bool{}, typeCache: map[string]types.Type{},
		tags: map[string]int{}, strs: map[string]int{"": 0}, abstr: map[string]bool{}, externs: map[string]bool{},
		assumed: map[string]bool{}, inlined: map[string]bool{}, safeCount: map[string]int{}, usedAsserts: map[string]bool{}, kinds: map[string]string{}, leafTyp: map[string]types.Type{}}
}

func (ex *Exec) fname() string {
	if ex.top == nil {
		return "lemma"
	}
	return ex.top.RelString(ex.prog.SSA.Pkg)
}

func (ex *Exec) addOblig(kind, label, pos, goal string, src string) *Oblig {
	if ex.discover > 0 {
		return nil
	}
	if ex.names == nil {
		ex.names = map[string]int{}
	}
	ex.names[kind+":"+label]++
	if n := ex.names[kind+":"+label]; n > 1 {
		label = fmt.Sprintf("%s~%d", label, n)
	}
	o := &Oblig{Name: ex.fname() + "#" + kind + ":" + label, Func: ex.fname(), Kind: kind, Pos: pos, CmdIdx: ex.sc.Len(), Goal: goal, Script: ex.sc, Src: src, Observe: ex.paramObs}
	ex.obls = append(ex.obls, o)
	return o
}

// ---- strings, tags, UFs ----------------------------------------------------

// strLit: "" is 0, every other literal has its own positive integer; the
// length of a literal is known.
func (ex *Exec) strLit(s string) string {
	if s == "" {
		return "0"
	}
	id, ok := ex.strs[s]
	if !ok {
		id = len(ex.strs)
		ex.strs[s] = id
	}
	t := fmt.Sprintf("%d", id)
	name := fmt.Sprintf("strlit!%d", id)
	if _, ok := ex.sc.declared[name]; !ok {
		ex.sc.declared[name] = SBool
		ex.sc.declLog = append(ex.sc.declLog, name)
		ex.sc.Comment(fmt.Sprintf("string literal %d = %q", id, s))
		ex.sc.Assume(mkEq(mkApp(ex.strLenFun(), t), fmt.Sprintf("%d", len(s))))
	}
	return t
}

func (ex *Exec) strLenFun() string {
	name := "strlen"
	if _, ok := ex.sc.declared[name]; !ok {
		ex.sc.DeclareFun(name, []Sort{SInt}, SInt)
		ex.sc.Assume("(forall ((x Int)) (! (and (>= (strlen x) 0) (= (= (strlen x) 0) (= x 0))) :pattern ((strlen x))))")
	}
	return name
}

func (ex *Exec) strLen(t string) string { return mkApp(ex.strLenFun(), t) }

func (ex *Exec) strLtFun() string {
	name := "strlt"
	if _, ok := ex.sc.declared[name]; !ok {
		ex.sc.DeclareFun(name, []Sort{SInt, SInt}, SBool)
		ex.sc.Assume("(forall ((x Int)) (not (strlt x x)))")
		ex.sc.Assume("(forall ((x Int) (y Int)) (=> (not (= x y)) (or (strlt x y) (strlt y x))))")
		ex.sc.Assume("(forall ((x Int) (y Int) (z Int)) (=> (and (strlt x y) (strlt y z)) (strlt x z)))")
	}
	return name
}

// umod/udiv: remainder and quotient by a non-constant divisor are uninterpreted
// functions with the few (true) facts the proofs need; this keeps goals linear.
func (ex *Exec) umod(a, b string) string {
	if isLit(b) {
		return mkApp("mod", a, b)
	}
	if _, ok := ex.sc.declared["umod"]; !ok {
		ex.sc.DeclareFun("umod", []Sort{SInt, SInt}, SInt)
		ex.sc.Assume("(forall ((a Int) (b Int)) (! (=> (and (>= a 0) (> b 0)) (and (<= 0 (umod a b)) (< (umod a b) b) (<= (umod a b) a))) :pattern ((umod a b))))")
	}
	return mkApp("umod", a, b)
}

func (ex *Exec) udiv(a, b string) string {
	if isLit(b) {
		return mkApp("div", a, b)
	}
	if _, ok := ex.sc.declared["udiv"]; !ok {
		ex.sc.DeclareFun("udiv", []Sort{SInt, SInt}, SInt)
		ex.sc.Assume("(forall ((a Int) (b Int)) (! (=> (and (>= a 0) (> b 0)) (and (<= 0 (udiv a b)) (<= (udiv a b) a))) :pattern ((udiv a b))))")
	}
	return mkApp("udiv", a, b)
}

// sidx(off, i) = off + i, kept as an uninterpreted symbol with its defining
// axiom so that quantifier patterns over slice elements contain no arithmetic.
func (ex *Exec) sidx(off, i string) string {
	if off == "0" {
		return i
	}
	if _, ok := ex.sc.declared["sidx"]; !ok {
		ex.sc.DeclareFun("sidx", []Sort{SInt, SInt}, SInt)
		ex.sc.Assume("(forall ((o Int) (i Int)) (! (= (sidx o i) (+ o i)) :pattern ((sidx o i))))")
		// re-association for slices of slices: s[l:][k] is s[l+k]
		ex.sc.Assume("(forall ((o Int) (l Int) (k Int)) (! (= (sidx (sidx o l) k) (sidx o (+ l k))) :pattern ((sidx (sidx o l) k))))")
	}
	return mkApp("sidx", off, i)
}

func (ex *Exec) errMsgFun() string {
	return ex.sc.DeclareFun("errmsg", []Sort{SInt, SInt}, SInt)
}

// typeTag gives each dynamic type a distinct positive integer.
func (ex *Exec) typeTag(t types.Type) string {
	k := types.TypeString(t, nil)
	id, ok := ex.tags[k]
	if !ok {
		id = len(ex.tags) + 1
		ex.tags[k] = id
		ex.tagTypes = append(ex.tagTypes, t)
	}
	return fmt.Sprintf("%d", id)
}

// bytesContent: abstract identity of the contents of a byte slice (a function
// of the backing row, offset and length).
func (ex *Exec) bytesContent(st *State, v Val) string {
	f := ex.sc.DeclareFun("bytes_content", []Sort{SArr(SInt, SInt), SInt, SInt}, SInt)
	row := mkSelect(ex.get(st, "E.uint8.", SArr(SInt, SArr(SInt, SInt))), v.Fs[0].T)
	// a nil/empty slice has content 0 (the empty string)
	return mkIte(mkEq(v.Fs[2].T, "0"), "0", mkApp(f, row, v.Fs[1].T, v.Fs[2].T))
}

// ---- facts about loaded values ------------------------------------------------

func (ex *Exec) leafFacts(st *State, l Leaf, t string) []string {
	switch l.Kind {
	case "int":
		lo, hi, _ := intRange(l.Typ)
		return []string{mkApp("<=", lo, t), mkApp("<=", t, hi)}
	case "str":
		return []string{mkApp(">=", t, "0")}
	case "ref", "iface.ref":
		if l.Kind == "ref" && l.Typ != nil && len(addressable) > 0 {
			if pt, ok := l.Typ.Underlying().(*types.Pointer); ok && addressableElem[typeKey(pt.Elem())] {
				al := ex.get(st, allocKey, SInt)
				return []string{mkApp("<=", "0", t), mkApp("<=", t, al)}
			}
		}
		return []string{mkApp("<=", "0", t), mkApp("<=", t, ex.get(st, allocKey, SInt))}
	case "slice.arr":
		return []string{mkApp("<=", "0", t), mkApp("<=", t, ex.get(st, allocKey, SInt))}
	case "slice.off", "iface.tag":
		return []string{mkApp("<=", "0", t)}
	}
	return nil
}

// valFacts returns well-formedness facts of a value of type t.
func (ex *Exec) valFacts(st *State, t types.Type, v Val) []string {
	ls := leavesOf(t)
	ts := flatten(v)
	var out []string
	for i, l := range ls {
		out = append(out, ex.leafFacts(st, l, ts[i])...)
		if l.Kind == "slice.len" {
			// order: arr, off, len, cap
			arr, ln, cp := ts[i-2], ts[i], ts[i+1]
			out = append(out, mkApp("<=", "0", ln), mkApp("<=", ln, cp), mkImp(mkEq(arr, "0"), mkEq(cp, "0")), mkApp("<", cp, intLit(two63)))
		}
		if l.Kind == "iface.tag" {
			out = append(out, mkImp(mkEq(ts[i], "0"), mkEq(ts[i+1], "0")))
		}
	}
	return out
}

// ---- frames ----------------------------------------------------------------

type Exit struct {
	reach   string
	st      *State
	results []Val
}

type deferRec struct {
	instr  *ssa.Defer
	active string
	fn     Val
	args   []Val
	block  *ssa.BasicBlock
}

type Loop struct {
	head    *ssa.BasicBlock
	blocks  map[*ssa.BasicBlock]bool
	ord     int
	backs   []*ssa.BasicBlock
	written []string
}

type Frame struct {
	ex        *Exec
	fn        *ssa.Function
	vals      map[ssa.Value]Val
	parent    *Frame
	depth     int
	defers    []*deferRec
	rets      []Exit
	panics    []Exit
	loops     map[*ssa.BasicBlock]*Loop
	cur       string
	st        *State
	top       bool
	callOrd   map[ssa.Instruction]int
	iters     map[*ssa.Range]*IterInfo
	loopCtx   map[*ssa.BasicBlock]*LoopCtx
	stepEdges []stepEdge
	headSt    map[*ssa.BasicBlock]*State           // state at the head of the current iteration (step clauses)
	headPhi   map[*ssa.BasicBlock]map[*ssa.Phi]Val // loop-carried values at the head of the current iteration
	dbg       map[string][]*ssa.DebugRef
	lastSort  *sortInfo
}

type bout struct {
	cur string
	st  *State
}

func (ex *Exec) newFrame(fn *ssa.Function, parent *Frame) *Frame {
	fr := &Frame{ex: ex, fn: fn, vals: map[ssa.Value]Val{}, parent: parent, iters: map[*ssa.Range]*IterInfo{}, loopCtx: map[*ssa.BasicBlock]*LoopCtx{}}
	if parent != nil {
		fr.depth = parent.depth + 1
	}
	fr.findLoops()
	fr.numberCalls()
	return fr
}

func (fr *Frame) findLoops() {
	fr.loops = map[*ssa.BasicBlock]*Loop{}
	for _, b := range fr.fn.Blocks {
		for _, s := range b.Succs {
			if s.Dominates(b) { // back edge b -> s
				l := fr.loops[s]
				if l == nil {
					l = &Loop{head: s, blocks: map[*ssa.BasicBlock]bool{s: true}}
					fr.loops[s] = l
				}
				l.backs = append(l.backs, b)
				// collect body: blocks that reach b without passing through s
				var stack []*ssa.BasicBlock
				if !l.blocks[b] {
					l.blocks[b] = true
					stack = append(stack, b)
				}
				for len(stack) > 0 {
					x := stack[len(stack)-1]
					stack = stack[:len(stack)-1]
					for _, p := range x.Preds {
						if !l.blocks[p] {
							l.blocks[p] = true
							stack = append(stack, p)
						}
					}
				}
			}
		}
	}
	// ordinals by source position of the loop head
	var heads []*ssa.BasicBlock
	for h := range fr.loops {
		heads = append(heads, h)
	}
	sort.Slice(heads, func(i, j int) bool {
		pi, pj := blockPos(heads[i]), blockPos(heads[j])
		if pi != pj {
			return pi < pj
		}
		return heads[i].Index < heads[j].Index
	})
	for i, h := range heads {
		fr.loops[h].ord = i + 1
	}
}

func blockPos(b *ssa.BasicBlock) token.Pos {
	best := token.NoPos
	for _, in := range b.Instrs {
		if p := in.Pos(); p.IsValid() && (best == token.NoPos || p < best) {
			best = p
		}
	}
	if best == token.NoPos {
		// look into the loop body blocks
		for _, s := range b.Succs {
			for _, in := range s.Instrs {
				if p := in.Pos(); p.IsValid() && (best == token.NoPos || p < best) {
					best = p
				}
			}
		}
	}
	return best
}

func calleeName(prog *Program, c *ssa.CallCommon) string {
	if c.IsInvoke() {
		return typeKey(c.Value.Type()) + "." + c.Method.Name()
	}
	switch f := c.Value.(type) {
	case *ssa.Function:
		if f.Pkg == prog.SSA {
			return f.RelString(prog.SSA.Pkg)
		}
		return f.RelString(nil)
	case *ssa.Builtin:
		return f.Name()
	case *ssa.MakeClosure:
		return f.Fn.(*ssa.Function).RelString(prog.SSA.Pkg)
	}
	return "?"
}

func (fr *Frame) numberCalls() {
	fr.callOrd = map[ssa.Instruction]int{}
	type ci struct {
		in   ssa.Instruction
		name string
		pos  token.Pos
		seq  int
	}
	var cs []ci
	seq := 0
	for _, b := range fr.fn.Blocks {
		for _, in := range b.Instrs {
			if c, ok := in.(ssa.CallInstruction); ok {
				seq++
				cs = append(cs, ci{in, calleeName(fr.ex.prog, c.Common()), in.Pos(), seq})
			}
		}
	}
	sort.SliceStable(cs, func(i, j int) bool {
		if cs[i].pos != cs[j].pos {
			return cs[i].pos < cs[j].pos
		}
		return cs[i].seq < cs[j].seq
	})
	cnt := map[string]int{}
	for _, c := range cs {
		cnt[c.name]++
		fr.callOrd[c.in] = cnt[c.name]
	}
}

// assume adds a fact guarded by the current path condition.
func (fr *Frame) assume(fact string) {
	if fact == "true" {
		return
	}
	fr.ex.sc.Assume(mkImp(fr.cur, fact))
}

func (fr *Frame) assumeAll(facts []string) {
	if len(facts) > 0 {
		fr.assume(mkAnd(facts...))
	}
}

// safety: an obligation in functions whose contract says "safe", otherwise an
// assumption (the function is assumed not to panic there).
func (fr *Frame) safety(kind string, cond string, pos token.Pos) {
	ex := fr.ex
	if cond == "true" {
		return
	}
	if fr.top && ex.fc != nil && ex.fc.Safe && ex.discover == 0 {
		ex.safeCount[kind]++
		ex.addOblig("safe", fmt.Sprintf("%s@%d", kind, ex.safeCount[kind]), ex.prog.pos(pos), mkImp(fr.cur, cond), "")
	}
	fr.assume(cond)
}

// run executes the function body from the given entry condition and state.
// Afterwards fr.rets / fr.panics hold the exits.
func (fr *Frame) run(entryReach string, st *State) {
	ex := fr.ex
	fn := fr.fn
	if len(fn.Blocks) == 0 {
		panic(oos("function %s has no body", fn.Name()))
	}
	order := fr.rpo()
	outs := map[*ssa.BasicBlock]*bout{}
	type edge struct {
		cond string
		st   *State
		from *ssa.BasicBlock
	}
	edgeCond := func(p, b *ssa.BasicBlock) string {
		o := outs[p]
		if iff, ok := p.Instrs[len(p.Instrs)-1].(*ssa.If); ok {
			c := fr.val(iff.Cond).T
			if p.Succs[0] == b && p.Succs[1] == b {
				return o.cur
			}
			if p.Succs[0] == b {
				return mkAnd(o.cur, c)
			}
			return mkAnd(o.cur, mkNot(c))
		}
		return o.cur
	}
	for _, b := range order {
		var edges []edge
		if b == fn.Blocks[0] {
			edges = []edge{{entryReach, st, nil}}
		} else {
			for _, p := range b.Preds {
				if p.Dominates(b) && b.Dominates(p) && p != b {
					// impossible
				}
				if b.Dominates(p) { // back edge
					continue
				}
				if outs[p] == nil {
					continue // dead predecessor
				}
				ec := edgeCond(p, b)
				if ec == "false" {
					continue
				}
				edges = append(edges, edge{ex.sc.Define("edge", SBool, ec), outs[p].st, p})
			}
			if len(edges) == 0 {
				continue // unreachable (e.g. recover block)
			}
		}
		conds := make([]string, len(edges))
		sts := make([]*State, len(edges))
		for i, e := range edges {
			conds[i], sts[i] = e.cond, e.st
		}
		reach := ex.sc.Define(fmt.Sprintf("reach.%s.%d", fn.Name(), b.Index), SBool, mkOr(conds...))
		fr.cur = reach
		fr.st = ex.mergeStates(conds, sts)
		// phis
		var phis []*ssa.Phi
		for _, in := range b.Instrs {
			if ph, ok := in.(*ssa.Phi); ok {
				phis = append(phis, ph)
			} else if _, ok := in.(*ssa.DebugRef); !ok {
				break
			}
		}
		loop := fr.loops[b]
		if loop == nil {
			for _, ph := range phis {
				vs := make([]Val, len(edges))
				for i, e := range edges {
					vs[i] = fr.val(ph.Edges[predIndex(b, e.from)])
				}
				fr.vals[ph] = ex.mergeVals(conds, vs, ph.Type(), "phi."+ph.Name())
			}
		} else {
			phiEntry := map[*ssa.Phi]Val{}
			for _, ph := range phis {
				vs := make([]Val, len(edges))
				for i, e := range edges {
					vs[i] = fr.val(ph.Edges[predIndex(b, e.from)])
				}
				phiEntry[ph] = ex.mergeVals(conds, vs, ph.Type(), "phi."+ph.Name())
			}
			fr.enterLoop(loop, phis, phiEntry)
		}
		// instructions
		for _, in := range b.Instrs {
			if _, ok := in.(*ssa.Phi); ok {
				continue
			}
			fr.exec(in)
		}
		outs[b] = &bout{cur: fr.cur, st: fr.st}
		// back edges leaving this block
		for _, s := range b.Succs {
			if s.Dominates(b) {
				fr.backEdge(b, s, edgeCond(b, s))
			}
		}
	}
	if fr.top && len(fr.stepEdges) > 0 {
		fr.flushSteps()
	}
}

func predIndex(b, p *ssa.BasicBlock) int {
	for i, q := range b.Preds {
		if q == p {
			return i
		}
	}
	panic("pred not found")
}

// rpo: reverse postorder ignoring back edges.
func (fr *Frame) rpo() []*ssa.BasicBlock {
	seen := map[*ssa.BasicBlock]bool{}
	var post []*ssa.BasicBlock
	var dfs func(b *ssa.BasicBlock)
	dfs = func(b *ssa.BasicBlock) {
		seen[b] = true
		for _, s := range b.Succs {
			if s.Dominates(b) {
				continue
			}
			if !seen[s] {
				dfs(s)
			}
		}
		post = append(post, b)
	}
	dfs(fr.fn.Blocks[0])
	out := make([]*ssa.BasicBlock, len(post))
	for i, b := range post {
		out[len(post)-1-i] = b
	}
	return out
}

// mergeVals merges values leafwise with an ite chain.
func (ex *Exec) mergeVals(conds []string, vs []Val, t types.Type, name string) Val {
	if len(vs) == 1 {
		return vs[0]
	}
	k := vs[0].K
	for _, v := range vs {
		if v.K != k {
			panic(oos("merging values of different kinds at %s (%v)", name, vs))
		}
	}
	switch k {
	case VFunc:
		for _, v := range vs {
			if v.Fn != vs[0].Fn {
				panic(oos("merging different closures at %s", name))
			}
		}
		return vs[0]
	case VUnit:
		return vs[0]
	case VIter:
		return vs[0]
	case VPtr:
		p0 := vs[0].P
		same := true
		for _, v := range vs {
			p := v.P
			if p.Root != p0.Root || p.Path != p0.Path || p.GName != p0.GName || typeKey(p.Base) != typeKey(p0.Base) {
				same = false
			}
		}
		if !same {
			// nil pointers (obj, ref 0) can merge with anything of root obj
			panic(oos("merging pointers of different shapes at %s: %v", name, vs))
		}
		refs := make([]string, len(vs))
		idxs := make([]string, len(vs))
		for i, v := range vs {
			refs[i], idxs[i] = v.P.Ref, v.P.Idx
		}
		np := *p0
		if p0.Root != "global" {
			np.Ref = ex.sc.Define(name, SInt, iteChain(conds, refs))
		}
		if p0.Root == "elem" {
			np.Idx = ex.sc.Define(name, SInt, iteChain(conds, idxs))
		}
		return Val{K: VPtr, P: &np}
	}
	ls := leavesOf(t)
	fl := make([][]string, len(vs))
	for i, v := range vs {
		fl[i] = flatten(v)
		if len(fl[i]) != len(ls) {
			panic(fmt.Sprintf("mergeVals: %s has %d leaves, type %s has %d", v, len(fl[i]), t, len(ls)))
		}
	}
	ts := make([]string, len(ls))
	for j, l := range ls {
		col := make([]string, len(vs))
		for i := range vs {
			col[i] = fl[i][j]
		}
		ts[j] = ex.sc.Define(name, l.Sort, iteChain(conds, col))
	}
	v, _ := unflatten(t, ts)
	return v
}

// freshVal makes a fresh unconstrained value of type t (with type facts assumed under cond).
func (ex *Exec) freshVal(st *State, t types.Type, name string) (Val, []string) {
	ls := leavesOf(t)
	ts := make([]string, len(ls))
	for i, l := range ls {
		p := name
		if l.Path != "" {
			p = name + "." + l.Path
		}
		ts[i] = ex.sc.Fresh(p, l.Sort)
	}
	v, _ := unflatten(t, ts)
	return v, ex.valFacts(st, t, v)
}

// ---- loops ---------------------------------------------------------------------

func (fr *Frame) loopInvariants(l *Loop) []Clause {
	if !fr.top || fr.ex.fc == nil {
		return nil
	}
	return fr.ex.fc.Loops[l.ord]
}

// loopEnv builds the environment in which invariants of loop l are evaluated,
// with the given values for the head's phis.
func (fr *Frame) loopEnv(l *Loop, phiVals map[*ssa.Phi]Val, st *State) *Env {
	ex := fr.ex
	env := fr.topEnv(st)
	lc := &LoopCtx{Vars: map[string]TV{}}
	savedSt := fr.st
	fr.st = st
	for n, tv := range fr.localsAtBlock(l.head, nil) {
		if _, isParam := env.vars[n]; !isParam {
			lc.Vars[n] = tv
		}
	}
	fr.st = savedSt
	for ph, v := range phiVals {
		if ph.Comment == "rangeindex" {
			lc.IterCount = mkApp("+", v.T, "1")
			continue
		}
		if ph.Comment != "" {
			lc.Vars[ph.Comment] = TV{V: v, T: ph.Type()}
		}
	}
	// map-range loop: the iterator position is the iteration count
	if it := fr.loopIter(l); it != nil {
		lc.IterCount = ex.get(st, it.Key, SInt)
		lc.Enum = it.Enum
		lc.Card = it.CardAt
		lc.KeyT = it.KeyT
	}
	env.loop = lc
	return env
}

// loopIter finds the map iterator advanced in the head block of l.
func (fr *Frame) loopIter(l *Loop) *IterInfo {
	for _, in := range l.head.Instrs {
		if nx, ok := in.(*ssa.Next); ok {
			if r, ok := nx.Iter.(*ssa.Range); ok {
				return fr.iters[r]
			}
		}
	}
	return nil
}

func (fr *Frame) enterLoop(l *Loop, phis []*ssa.Phi, phiEntry map[*ssa.Phi]Val) {
	ex := fr.ex
	invs := fr.loopInvariants(l)
	// discover the heap keys written by the loop body
	written := fr.discoverWrites(l, phis)
	if os.Getenv("GOVC_DEBUG_LOOPS") != "" {
		fmt.Fprintf(os.Stderr, "loop %d of %s (top=%v) at %s: %d keys written\n", l.ord, fr.fn.Name(), fr.top, ex.prog.pos(blockPos(l.head)), len(written))
	}
	// inv-init
	envE := fr.loopEnv(l, phiEntry, fr.st)
	for _, c := range invs {
		g := fr.evalClause(envE, c)
		ex.addOblig("inv-init", fmt.Sprintf("%d.%s", l.ord, c.Label), ex.prog.pos(blockPos(l.head)), mkImp(fr.cur, g), c.Src)
	}
	if fr.top && ex.fc != nil {
		for _, c := range ex.fc.LoopEntry[l.ord] {
			g := fr.evalClause(envE, c)
			ex.addOblig("loop-entry", fmt.Sprintf("%d.%s", l.ord, c.Label), ex.prog.pos(blockPos(l.head)), mkImp(fr.cur, g), c.Src)
		}
	}
	autoE := fr.autoInvariants(l, phiEntry, fr.st)
	for i, g := range autoE {
		ex.addOblig("inv-init", fmt.Sprintf("%d.auto%d", l.ord, i), ex.prog.pos(blockPos(l.head)), mkImp(fr.cur, g), "auto")
	}
	stLoopEntry := fr.st.clone()
	if ex.loopRefs == nil {
		ex.loopRefs = map[*ssa.BasicBlock]*State{}
	}
	ex.loopRefs[l.head] = stLoopEntry
	l.written = written
	for _, cd := range fr.candidatesTop(l, phiEntry, fr.st) {
		ex.addOblig("cand", cd.name+"@init", ex.prog.pos(blockPos(l.head)), mkImp(fr.cur, cd.term), "inferred candidate")
	}
	// havoc
	for _, k := range written {
		if _, ok := ex.hsort[k]; ok {
			ex.havocKey(fr.st, k)
		}
	}
	if ex.written[allocKey] || containsStr(written, allocKey) {
		// allocation counter only grows
	}
	phiH := map[*ssa.Phi]Val{}
	for _, ph := range phis {
		v, facts := ex.freshVal(fr.st, ph.Type(), "loop."+ph.Name())
		if phiEntry[ph].K == VPtr && phiEntry[ph].P.Root != "obj" {
			panic(oos("loop-carried interior pointer %s", ph.Name()))
		}
		if phiEntry[ph].K == VFunc || phiEntry[ph].K == VIter {
			v = phiEntry[ph]
			facts = nil
		}
		fr.vals[ph] = v
		phiH[ph] = v
		fr.assumeAll(facts)
	}
	envH := fr.loopEnv(l, phiH, fr.st)
	for _, c := range invs {
		fr.assume(fr.evalClause(envH, c))
	}
	for _, g := range fr.autoInvariants(l, phiH, fr.st) {
		fr.assume(g)
	}
	for _, cd := range fr.candidatesTop(l, phiH, fr.st) {
		fr.assume(cd.term)
	}
	// alloc monotone
	if containsStr(written, allocKey) {
		fr.assume(mkApp(">=", ex.get(fr.st, allocKey, SInt), ex.get(stLoopEntry, allocKey, SInt)))
	}
	envH.loop.Prev = prevVars(phiH)
	fr.loopCtx[l.head] = envH.loop
	if fr.top && ex.fc != nil && len(ex.fc.LoopStep[l.ord]) > 0 {
		if fr.headSt == nil {
			fr.headSt = map[*ssa.BasicBlock]*State{}
			fr.headPhi = map[*ssa.BasicBlock]map[*ssa.Phi]Val{}
		}
		fr.headSt[l.head] = fr.st.clone()
		fr.headPhi[l.head] = phiH
	}
}

func prevVars(phi map[*ssa.Phi]Val) map[string]TV {
	out := map[string]TV{}
	for ph, v := range phi {
		if ph.Comment != "" && ph.Comment != "rangeindex" {
			out[ph.Comment] = TV{V: v, T: ph.Type()}
		}
	}
	return out
}

// stepObligations: 'loop N step' clauses relate the state at the head of the current iteration
// (old(e)) to the state at a back edge or at a return reached after passing the head.
func (fr *Frame) stepObligations(l *Loop, phiVals map[*ssa.Phi]Val, cond, where string, pos string, cur map[string]TV) {
	ex := fr.ex
	if !fr.top || ex.fc == nil || fr.headSt == nil || fr.headSt[l.head] == nil {
		return
	}
	for _, c := range ex.fc.LoopStep[l.ord] {
		env := fr.loopEnv(l, phiVals, fr.st)
		env.old = fr.headSt[l.head]
		env.loop.Prev = prevVars(fr.headPhi[l.head])
		for n, tv := range cur {
			if _, isParam := env.vars[n]; !isParam {
				env.loop.Vars[n] = tv
			}
		}
		g := fr.evalClause(env, c)
		ex.addOblig(where, fmt.Sprintf("%d.%s", l.ord, c.Label), pos, mkImp(cond, g), c.Src)
	}
}

func containsStr(xs []string, s string) bool {
	for _, x := range xs {
		if x == s {
			return true
		}
	}
	return false
}

// autoInvariants: bounds of range-index counters and map iterators.
func (fr *Frame) autoInvariants(l *Loop, phiVals map[*ssa.Phi]Val, st *State) []string {
	ex := fr.ex
	var out []string
	for ph, v := range phiVals {
		if ph.Comment != "rangeindex" {
			continue
		}
		// head: t13 = phi + 1; t14 = t13 < N; if t14 ...
		var bound ssa.Value
		for _, in := range l.head.Instrs {
			if bo, ok := in.(*ssa.BinOp); ok && bo.Op == token.LSS {
				if add, ok := bo.X.(*ssa.BinOp); ok && add.X == ph {
					bound = bo.Y
				}
			}
		}
		out = append(out, mkApp("<=", "(- 1)", v.T))
		if bound != nil {
			if bv, ok := fr.vals[bound]; ok {
				out = append(out, mkApp("<=", v.T, mkApp("-", bv.T, "1")))
			} else if c, ok := bound.(*ssa.Const); ok {
				out = append(out, mkApp("<=", v.T, mkApp("-", fr.val(c).T, "1")))
			}
		}
	}
	if it := fr.loopIter(l); it != nil {
		pos := ex.get(st, it.Key, SInt)
		out = append(out, mkApp("<=", "0", pos), mkApp("<=", pos, it.CardAt))
	}
	sort.Strings(out)
	return out
}

func (fr *Frame) backEdge(from, head *ssa.BasicBlock, cond string) {
	ex := fr.ex
	l := fr.loops[head]
	phiVals := map[*ssa.Phi]Val{}
	for _, in := range head.Instrs {
		if ph, ok := in.(*ssa.Phi); ok {
			phiVals[ph] = fr.val(ph.Edges[predIndex(head, from)])
		}
	}
	env := fr.loopEnv(l, phiVals, fr.st)
	for _, c := range fr.loopInvariants(l) {
		g := fr.evalClause(env, c)
		ex.addOblig("inv-keep", fmt.Sprintf("%d.%s", l.ord, c.Label), ex.prog.pos(blockPos(head)), mkImp(cond, g), c.Src)
	}
	for i, g := range fr.autoInvariants(l, phiVals, fr.st) {
		ex.addOblig("inv-keep", fmt.Sprintf("%d.auto%d", l.ord, i), ex.prog.pos(blockPos(head)), mkImp(cond, g), "auto")
	}
	if fr.top && ex.fc != nil && len(ex.fc.LoopStep[l.ord]) > 0 {
		// step clauses are checked once per loop on the merged back edges (flushSteps)
		fr.stepEdges = append(fr.stepEdges, stepEdge{l: l, cond: cond, st: fr.st.clone(), phi: phiVals})
	}
	for _, cd := range fr.candidatesTop(l, phiVals, fr.st) {
		ex.addOblig("cand", cd.name+"@keep", ex.prog.pos(blockPos(head)), mkImp(cond, cd.term), "inferred candidate")
	}
}

type stepEdge struct {
	l    *Loop
	cond string
	st   *State
	phi  map[*ssa.Phi]Val
}

// flushSteps emits the step-keep obligations of every loop on the merge of its back edges.
func (fr *Frame) flushSteps() {
	ex := fr.ex
	byLoop := map[*Loop][]stepEdge{}
	var ls []*Loop
	for _, e := range fr.stepEdges {
		if _, ok := byLoop[e.l]; !ok {
			ls = append(ls, e.l)
		}
		byLoop[e.l] = append(byLoop[e.l], e)
	}
	sort.Slice(ls, func(i, j int) bool { return ls[i].ord < ls[j].ord })
	for _, l := range ls {
		es := byLoop[l]
		conds := make([]string, len(es))
		sts := make([]*State, len(es))
		for i, e := range es {
			conds[i] = e.cond
			sts[i] = e.st
		}
		saved := fr.st
		fr.st = ex.mergeStates(conds, sts)
		phi := map[*ssa.Phi]Val{}
		for ph := range es[0].phi {
			vs := make([]Val, len(es))
			for i, e := range es {
				vs[i] = e.phi[ph]
			}
			phi[ph] = ex.mergeVals(conds, vs, ph.Type(), "step."+ph.Name())
		}
		any := ex.sc.Define("step.reach", SBool, mkOr(conds...))
		fr.stepObligations(l, phi, any, "step-keep", ex.prog.pos(blockPos(l.head)), nil)
		fr.st = saved
	}
	fr.stepEdges = nil
}

type candidate struct{ name, term string }

func (fr *Frame) candidatesTop(l *Loop, phiVals map[*ssa.Phi]Val, st *State) []candidate {
	if !fr.top {
		return nil
	}
	if fr.ex.fc != nil && fr.ex.fc.NoInfer {
		// no general inference; but the function's own local cells (variables captured by a closure or
		// whose address is taken: pointer- and scalar-typed Allocs) must survive the havoc at the loop
		// head when the loop only allocates *new* cells of the same type (inlined callees with closures)
		return fr.cellCandidates(l, st)
	}
	return fr.candidates(l, phiVals, st)
}

// cellCandidates: frameL candidates restricted to the heap keys of the top function's own scalar cells.
func (fr *Frame) cellCandidates(l *Loop, st *State) []candidate {
	ex := fr.ex
	keys := map[string]bool{}
	for _, b := range fr.fn.Blocks {
		for _, in := range b.Instrs {
			al, ok := in.(*ssa.Alloc)
			if !ok {
				continue
			}
			et := al.Type().Underlying().(*types.Pointer).Elem()
			switch et.Underlying().(type) {
			case *types.Pointer, *types.Basic, *types.Chan:
				for _, lf := range leavesOf(et) {
					k := "H." + typeKey(et) + "." + lf.Path
					keys[k] = true
				}
			}
		}
	}
	var out []candidate
	stL := ex.loopRefs[l.head]
	allocL := ex.get(stL, allocKey, SInt)
	for _, k := range l.written {
		if !keys[k] {
			continue
		}
		srt, ok := ex.hsort[k]
		if !ok || !srt.isArray() {
			continue
		}
		name := fmt.Sprintf("L%d.frameL.%s", l.ord, k)
		if ex.disabled[name] {
			continue
		}
		cur := ex.get(st, k, srt)
		ref := ex.get(stL, k, srt)
		if cur == ref {
			continue
		}
		t := fmt.Sprintf("(forall ((o Int)) (! (=> (and (<= %s o) (<= o %s)) (= (select %s o) (select %s o))) :pattern ((select %s o))))", objLowerBound(k, allocL), allocL, cur, ref, cur)
		out = append(out, candidate{name, t})
	}
	return out
}

// candidates: inferred (Houdini) loop invariants. Each is assumed at the loop
// head and checked at entry and on every back edge; the driver drops the ones
// that fail and regenerates.
//
//	frame0.K : objects that existed at function entry are unchanged in K since function entry
//	frameL.K : objects that existed at loop entry are unchanged in K since loop entry
//	fresh.v  : the loop-carried slice/reference v was allocated by this function (or is nil)
func (fr *Frame) candidates(l *Loop, phiVals map[*ssa.Phi]Val, st *State) []candidate {
	ex := fr.ex
	var out []candidate
	alloc0 := ex.get(ex.entry, allocKey, SInt)
	stL := ex.loopRefs[l.head]
	allocL := ex.get(stL, allocKey, SInt)
	for _, k := range l.written {
		srt, ok := ex.hsort[k]
		if !ok || !srt.isArray() || strings.HasPrefix(k, "G.") || strings.HasPrefix(k, "B.") {
			continue
		}
		cur := ex.get(st, k, srt)
		for _, v := range []struct {
			tag, ref, alloc string
		}{{"frame0", ex.sc.Declare(ex.entryName(k), srt), alloc0}, {"frameL", ex.get(stL, k, srt), allocL}} {
			name := fmt.Sprintf("L%d.%s.%s", l.ord, v.tag, k)
			if ex.disabled[name] {
				continue
			}
			if cur == v.ref {
				continue
			}
			t := fmt.Sprintf("(forall ((o Int)) (! (=> (and (<= %s o) (<= o %s)) (= (select %s o) (select %s o))) :pattern ((select %s o))))", objLowerBound(k, v.alloc), v.alloc, cur, v.ref, cur)
			out = append(out, candidate{name, t})
		}
	}
	// frameX.K : in K, every pre-existing row other than those named by "modifies x[*]" is unchanged since entry
	if fr.top && ex.fc != nil {
		env0 := fr.topEnv(ex.entry)
		env0.old = ex.entry
		rows := map[string][]string{}
		for i, m := range ex.fc.Modifies {
			for _, ml := range fr.evalModLocs(env0, m, ex.fc, i) {
				if !ml.Whole && len(ml.Idx) == 1 && ex.hsort[ml.Key].isArray() {
					rows[ml.Key] = append(rows[ml.Key], ml.Idx[0])
				}
			}
		}
		for _, k := range l.written {
			if len(rows[k]) == 0 {
				continue
			}
			name := fmt.Sprintf("L%d.frameX.%s", l.ord, k)
			if ex.disabled[name] {
				continue
			}
			srt := ex.hsort[k]
			cur := ex.get(st, k, srt)
			ent := ex.sc.Declare(ex.entryName(k), srt)
			if cur == ent {
				continue
			}
			var ne []string
			for _, r := range rows[k] {
				ne = append(ne, mkNot(mkEq("o", r)))
			}
			out = append(out, candidate{name, fmt.Sprintf("(forall ((o Int)) (! (=> (and (<= 0 o) (<= o %s) %s) (= (select %s o) (select %s o))) :pattern ((select %s o))))", alloc0, mkAnd(ne...), cur, ent, cur)})
		}
	}
	// rowP.<param>.K : the backing row of slice parameter <param> is unchanged in K since function entry
	for _, prm := range fr.fn.Params {
		sl, ok := prm.Type().Underlying().(*types.Slice)
		if !ok {
			continue
		}
		pv := fr.vals[prm]
		for _, loc := range ptrLocs(&Ptr{Root: "elem", Base: sl.Elem(), Ref: pv.Fs[0].T, Idx: "0", Elem: sl.Elem()}, sl.Elem()) {
			if !containsStr(l.written, loc.Key) {
				continue
			}
			name := fmt.Sprintf("L%d.rowP.%s.%s", l.ord, prm.Name(), loc.Key)
			if ex.disabled[name] {
				continue
			}
			cur := ex.get(st, loc.Key, loc.Sort)
			ent := ex.sc.Declare(ex.entryName(loc.Key), loc.Sort)
			if cur == ent {
				continue
			}
			out = append(out, candidate{name, mkEq(mkSelect(cur, pv.Fs[0].T), mkSelect(ent, pv.Fs[0].T))})
		}
	}
	var phs []*ssa.Phi
	for ph := range phiVals {
		phs = append(phs, ph)
	}
	sort.Slice(phs, func(i, j int) bool { return phs[i].Name() < phs[j].Name() })
	for _, ph := range phs {
		v := phiVals[ph]
		var r string
		switch ph.Type().Underlying().(type) {
		case *types.Slice:
			r = v.Fs[0].T
		case *types.Map:
			r = v.T
		case *types.Pointer:
			if v.K == VPtr && v.P.Root == "obj" && v.P.Path == "" {
				r = v.P.Ref
			}
		}
		if r == "" {
			continue
		}
		n := ph.Comment
		if n == "" {
			n = ph.Name()
		}
		name := fmt.Sprintf("L%d.fresh.%s", l.ord, n)
		if ex.disabled[name] {
			continue
		}
		out = append(out, candidate{name, mkOr(mkEq(r, "0"), mkApp(">", r, alloc0))})
	}
	return out
}

// discoverWrites dry-runs the loop body to find the heap keys it writes.
func (fr *Frame) discoverWrites(l *Loop, phis []*ssa.Phi) []string {
	ex := fr.ex
	mark := ex.sc.mark()
	savedWritten := ex.written
	savedVals := fr.vals
	savedCur, savedSt := fr.cur, fr.st
	savedObls := len(ex.obls)
	savedDefers := len(fr.defers)
	savedRets, savedPanics := len(fr.rets), len(fr.panics)
	savedHsort := map[string]Sort{}
	for k, v := range ex.hsort {
		savedHsort[k] = v
	}
	ex.written = map[string]bool{}
	ex.discover++
	fr.vals = map[ssa.Value]Val{}
	for k, v := range savedVals {
		fr.vals[k] = v
	}
	fr.st = savedSt.clone()
	func() {
		defer func() {
			ex.discover--
		}()
		for _, ph := range phis {
			v, _ := ex.freshVal(fr.st, ph.Type(), "disc."+ph.Name())
			if e, ok := savedVals[ph.Edges[0]]; ok && (e.K == VFunc || e.K == VIter) {
				v = e
			}
			fr.vals[ph] = v
		}
		// run the loop blocks in rpo order, starting with the head
		outs := map[*ssa.BasicBlock]*bout{}
		for _, b := range fr.rpo() {
			if !l.blocks[b] {
				continue
			}
			if b != l.head {
				var conds []string
				var sts []*State
				var froms []*ssa.BasicBlock
				for _, p := range b.Preds {
					if b.Dominates(p) || outs[p] == nil {
						continue
					}
					conds = append(conds, "true")
					sts = append(sts, outs[p].st)
					froms = append(froms, p)
				}
				if len(sts) == 0 {
					continue
				}
				// union of heaps is enough for discovery
				fr.st = ex.mergeStates(freshConds(ex, len(sts)), sts)
				fr.cur = "true"
				for _, in := range b.Instrs {
					if ph, ok := in.(*ssa.Phi); ok {
						if inner := fr.loops[b]; inner != nil {
							v, _ := ex.freshVal(fr.st, ph.Type(), "disc."+ph.Name())
							fr.vals[ph] = v
						} else {
							vs := make([]Val, len(froms))
							for i, f := range froms {
								vs[i] = fr.val(ph.Edges[predIndex(b, f)])
							}
							fr.vals[ph] = ex.mergeVals(freshConds(ex, len(vs)), vs, ph.Type(), "disc")
						}
					}
				}
				if inner := fr.loops[b]; inner != nil && inner != l {
					// nested loop: its own writes are part of ours; havoc not needed in discovery
				}
			} else {
				fr.cur = "true"
			}
			for _, in := range b.Instrs {
				if _, ok := in.(*ssa.Phi); ok {
					continue
				}
				fr.exec(in)
			}
			outs[b] = &bout{cur: fr.cur, st: fr.st}
		}
	}()
	var ws []string
	for k := range ex.written {
		ws = append(ws, k)
	}
	sort.Strings(ws)
	// restore
	ex.sc.rollback(mark)
	ex.written = savedWritten
	for _, k := range ws {
		ex.written[k] = true
	}
	// keep sorts of keys discovered (they will be declared again when touched)
	for k, v := range ex.hsort {
		savedHsort[k] = v
	}
	ex.hsort = savedHsort
	fr.vals = savedVals
	fr.cur, fr.st = savedCur, savedSt
	ex.obls = ex.obls[:savedObls]
	fr.defers = fr.defers[:savedDefers]
	fr.rets, fr.panics = fr.rets[:savedRets], fr.panics[:savedPanics]
	// make sure every written key exists in the state (declared at entry version)
	for _, k := range ws {
		ex.get(fr.st, k, ex.hsort[k])
	}
	return ws
}

func freshConds(ex *Exec, n int) []string {
	out := make([]string, n)
	for i := range out {
		out[i] = ex.sc.Fresh("disc.c", SBool)
	}
	return out
}

// ---- environments ----------------------------------------------------------------

func (fr *Frame) topEnv(st *State) *Env {
	ex := fr.ex
	env := &Env{ex: ex, st: st, old: ex.entry, vars: map[string]TV{}}
	for _, p := range fr.fn.Params {
		env.vars[p.Name()] = TV{V: fr.vals[p], T: p.Type()}
	}
	for _, fv := range fr.fn.FreeVars {
		// captured variable: pointer to its cell; expose the current content under its name
		if pv, ok := fr.vals[fv]; ok && pv.K == VPtr {
			env.vars[fv.Name()] = TV{V: ex.load(st, pv.P, pv.P.Elem), T: pv.P.Elem}
		}
	}
	return env
}

func (fr *Frame) evalClause(env *Env, c Clause) (res string) {
	defer func() {
		if r := recover(); r != nil {
			if ee, ok := r.(evalErr); ok {
				panic(oos("contract line %d (%s): %s", c.Line, c.Label, string(ee)))
			}
			panic(r)
		}
	}()
	return env.evalBool(c.E)
}

func (s *Script) mark() [3]int { return [3]int{len(s.cmds), s.n, len(s.declLog)} }
func (s *Script) rollback(m [3]int) {
	s.cmds = s.cmds[:m[0]]
	// s.n is not rolled back: names stay unique
	for _, n := range s.declLog[m[2]:] {
		delete(s.declared, n)
		delete(s.defs, n)
	}
	s.declLog = s.declLog[:m[2]]
}

func describe(v ssa.Value) string {
	return fmt.Sprintf("%s (%T)", v.Name(), v)
}

func shortType(t types.Type) string {
	return strings.ReplaceAll(types.TypeString(t, nil), raftPath+".", "")
}

// innermostLoopCtx: the loop context (for #i etc.) of the innermost loop containing block b.
func (fr *Frame) innermostLoopCtx(b *ssa.BasicBlock) *LoopCtx {
	var best *Loop
	for _, l := range fr.loops {
		if l.blocks[b] && (best == nil || len(l.blocks) < len(best.blocks)) {
			best = l
		}
	}
	if best == nil {
		return nil
	}
	return fr.loopCtx[best.head]
}

// objLowerBound: the smallest reference of an object that exists when the
// allocation counter is alloc - 0 normally; for heap arrays of a type that has
// virtual (embedded, addressable) objects, the most negative virtual reference.
func objLowerBound(key, alloc string) string {
	return "0"
}
