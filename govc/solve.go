package main

import (
	"bytes"
	"context"
	"crypto/sha256"
	"encoding/hex"
	"fmt"
	"os"
	"os/exec"
	"path/filepath"
	"strings"
	"sync"
	"sync/atomic"
	"time"
)

type SolveResult struct {
	Status  string // "unsat", "sat", "unknown"
	Solver  string
	Seconds float64
	Model   string // raw (get-value) output when sat
	Values  map[string]string
	Bytes   int
	Confirm string // second-solver confirmation (thorough)
	All     map[string]string
}

type solverSpec struct {
	name string
	args func(file string, secs int) []string
}

// Time limits are CPU-time limits (ulimit -t in a wrapper shell) so that a loaded machine cannot turn a
// proof that needs 3 s of solver time into a timeout; the solvers' own wall-clock limits are set to
// wallFactor times that and only guard against a solver that sleeps.
const wallFactor = 6

func cpuLimited(secs int, argv ...string) []string {
	return append([]string{"/bin/sh", "-c", fmt.Sprintf("ulimit -t %d; exec \"$@\"", secs+1), "sh"}, argv...)
}

var solvers = []solverSpec{
	{"z3-new", func(f string, s int) []string { return cpuLimited(s, "z3-new", fmt.Sprintf("-T:%d", s*wallFactor), f) }},
	{"z3", func(f string, s int) []string { return cpuLimited(s, "z3", fmt.Sprintf("-T:%d", s*wallFactor), f) }},
	{"cvc5", func(f string, s int) []string {
		return cpuLimited(s, "cvc5", fmt.Sprintf("--tlimit=%d", s*wallFactor*1000), "--produce-models", f)
	}},
}

func (o *Oblig) smt2() string {
	var b strings.Builder
	b.WriteString("(set-option :produce-models true)\n(set-logic ALL)\n")
	for _, c := range o.Script.cmds[:o.CmdIdx] {
		b.WriteString(c)
		b.WriteByte('\n')
	}
	b.WriteString("; obligation " + o.Name + "\n")
	if o.Src != "" {
		b.WriteString("; " + strings.ReplaceAll(o.Src, "\n", " ") + "\n")
	}
	b.WriteString("(assert (not " + o.Goal + "))\n(check-sat)\n")
	if len(o.Observe) > 0 {
		var ts []string
		for _, ob := range o.Observe {
			ts = append(ts, ob.Term)
		}
		b.WriteString("(get-value (" + strings.Join(ts, " ") + "))\n")
	}
	return b.String()
}

// solverSem bounds the number of solver processes running at once.
var solverSem = make(chan struct{}, 16)

func runSolver(ctx context.Context, sp solverSpec, file string, secs int) (status, out string, dur float64) {
	select {
	case solverSem <- struct{}{}:
	case <-ctx.Done():
		return "unknown", "cancelled", 0
	}
	defer func() { <-solverSem }()
	if ctx.Err() != nil {
		return "unknown", "cancelled", 0
	}
	t0 := time.Now()
	cctx, cancel := context.WithTimeout(ctx, time.Duration(secs*wallFactor+2)*time.Second)
	defer cancel()
	a := sp.args(file, secs)
	cmd := exec.CommandContext(cctx, a[0], a[1:]...)
	var buf bytes.Buffer
	cmd.Stdout = &buf
	cmd.Stderr = &buf
	_ = cmd.Run()
	dur = time.Since(t0).Seconds()
	out = buf.String()
	first := strings.TrimSpace(strings.SplitN(out, "\n", 2)[0])
	switch first {
	case "sat", "unsat":
		status = first
	default:
		status = "unknown"
		if strings.Contains(out, "error") && !strings.Contains(first, "unknown") && !strings.Contains(first, "timeout") {
			status = "error"
		}
	}
	return
}

// Proof cache: the answer "unsat" for a byte-identical SMT-LIB query is reused
// (key: SHA-256 of the query text). Obligations are still generated from the
// current source on every run; only the solver call is saved. GOVC_NOCACHE=1 disables it.
var cacheDir = func() string {
	if os.Getenv("GOVC_NOCACHE") != "" {
		return ""
	}
	d := filepath.Join(verifRoot(), ".cache", "smt")
	if err := os.MkdirAll(d, 0o755); err != nil {
		return ""
	}
	return d
}()

var cacheHits, cacheMisses int64

func cacheKey(text string) string {
	h := sha256.Sum256([]byte(text))
	return hex.EncodeToString(h[:])
}

// solve races the solvers on one obligation.
func solve(o *Oblig, dir string, secs int, confirm bool) SolveResult {
	text := o.smt2()
	var ckey string
	if cacheDir != "" && !confirm {
		ckey = filepath.Join(cacheDir, cacheKey(text))
		if b, err := os.ReadFile(ckey); err == nil {
			parts := strings.SplitN(strings.TrimSpace(string(b)), " ", 3)
			if len(parts) == 3 && parts[0] == "sat" && o.ExpectSat {
				atomic.AddInt64(&cacheHits, 1)
				return SolveResult{Status: "sat", Solver: parts[1], Bytes: len(text), All: map[string]string{parts[1]: "sat (cached)"}}
			}
			if len(parts) == 3 && parts[0] == "undecided" && o.Kind == "cand" {
				// an inferred candidate that was not proved before is simply dropped again (always sound)
				atomic.AddInt64(&cacheHits, 1)
				return SolveResult{Status: "unknown", Bytes: len(text), All: map[string]string{"cache": "candidate undecided before"}}
			}
			if len(parts) == 3 && parts[0] == "unsat" {
				atomic.AddInt64(&cacheHits, 1)
				var t float64
				fmt.Sscanf(parts[2], "%f", &t)
				return SolveResult{Status: "unsat", Solver: parts[1], Seconds: t, Bytes: len(text), All: map[string]string{parts[1]: "unsat (cached proof of the identical query)"}, Confirm: "cached"}
			}
		}
		atomic.AddInt64(&cacheMisses, 1)
	}
	res := solveUncached(o, text, dir, secs, confirm)
	if ckey != "" && res.Status == "unsat" {
		_ = os.WriteFile(ckey, []byte(fmt.Sprintf("unsat %s %.3f\n", res.Solver, res.Seconds)), 0o644)
	}
	if ckey != "" && res.Status == "sat" && o.ExpectSat {
		_ = os.WriteFile(ckey, []byte(fmt.Sprintf("sat %s %.3f\n", res.Solver, res.Seconds)), 0o644)
	}
	if ckey != "" && o.Kind == "cand" && res.Status != "unsat" && res.Status != "sat" && secs >= 10 {
		_ = os.WriteFile(ckey, []byte("undecided - 0\n"), 0o644)
	}
	return res
}

func solveUncached(o *Oblig, text, dir string, secs int, confirm bool) SolveResult {
	file := filepath.Join(dir, sanitize(o.Name)+".smt2")
	if len(file) > 200 {
		file = file[:200] + ".smt2"
	}
	_ = os.WriteFile(file, []byte(text), 0o644)
	ctx, cancel := context.WithCancel(context.Background())
	defer cancel()
	type r struct {
		sp     solverSpec
		status string
		out    string
		dur    float64
	}
	ch := make(chan r, len(solvers))
	for _, sp := range solvers {
		go func(sp solverSpec) {
			s, out, d := runSolver(ctx, sp, file, secs)
			ch <- r{sp, s, out, d}
		}(sp)
	}
	res := SolveResult{Status: "unknown", Bytes: len(text), All: map[string]string{}}
	got := 0
	var definite []r
	for got < len(solvers) {
		x := <-ch
		got++
		res.All[x.sp.name] = x.status
		if x.status == "error" {
			res.All[x.sp.name] = "error: " + firstLines(x.out, 2)
		}
		if x.status == "sat" || x.status == "unsat" {
			definite = append(definite, x)
			if !confirm {
				break
			}
		}
	}
	cancel()
	if len(definite) > 0 {
		d := definite[0]
		res.Status, res.Solver, res.Seconds = d.status, d.sp.name, d.dur
		if d.status == "sat" {
			res.Model = d.out
			res.Values = parseValues(d.out, o.Observe)
		}
		for _, e := range definite[1:] {
			if e.status != d.status {
				res.Status = "disagree"
				res.Confirm = fmt.Sprintf("%s says %s but %s says %s", d.sp.name, d.status, e.sp.name, e.status)
			} else if res.Confirm == "" {
				res.Confirm = e.sp.name
			}
		}
	} else {
		var parts []string
		for k, v := range res.All {
			parts = append(parts, k+"="+v)
		}
		res.Model = strings.Join(parts, "; ")
	}
	return res
}

func firstLines(s string, n int) string {
	ls := strings.Split(strings.TrimSpace(s), "\n")
	if len(ls) > n {
		ls = ls[:n]
	}
	return strings.Join(ls, " | ")
}

// parseValues reads a (get-value ...) answer: ((term value) ...).
func parseValues(out string, obs []Observable) map[string]string {
	vals := map[string]string{}
	i := strings.Index(out, "((")
	if i < 0 {
		return vals
	}
	s := out[i+1:]
	// split top-level (term value) pairs
	depth := 0
	start := -1
	var pairs []string
	for j, c := range s {
		if c == '(' {
			if depth == 0 {
				start = j
			}
			depth++
		} else if c == ')' {
			depth--
			if depth == 0 && start >= 0 {
				pairs = append(pairs, s[start+1:j])
				start = -1
			}
			if depth < 0 {
				break
			}
		}
	}
	for k, p := range pairs {
		if k >= len(obs) {
			break
		}
		t := obs[k].Term
		p = strings.TrimSpace(p)
		if strings.HasPrefix(p, t) {
			v := strings.TrimSpace(p[len(t):])
			v = strings.ReplaceAll(v, "(- ", "-")
			v = strings.TrimSuffix(v, ")")
			vals[obs[k].Name] = v
		}
	}
	return vals
}

// solveAll discharges obligations in parallel.
func solveAll(obls []*Oblig, secs int, confirm bool, workers int, keepDir string) map[*Oblig]SolveResult {
	dir := keepDir
	if dir == "" {
		d, err := os.MkdirTemp("", "govc-smt-")
		if err != nil {
			panic(err)
		}
		dir = d
		defer os.RemoveAll(dir)
	} else {
		_ = os.MkdirAll(dir, 0o755)
	}
	out := map[*Oblig]SolveResult{}
	var mu sync.Mutex
	var wg sync.WaitGroup
	sem := make(chan struct{}, workers)
	for _, o := range obls {
		wg.Add(1)
		sem <- struct{}{}
		go func(o *Oblig) {
			defer wg.Done()
			defer func() { <-sem }()
			r := solve(o, dir, secs, confirm)
			mu.Lock()
			out[o] = r
			mu.Unlock()
		}(o)
	}
	wg.Wait()
	return out
}
